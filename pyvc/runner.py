"""./check <Cxx> [--tier quick|thorough] [--replay FILE]

Exit codes: 0 every claimed obligation discharged (known findings printed);
1 violation (line `VIOLATION property=<id> replay=<path>`); 2 undecided; 3 checker error.
"""
from __future__ import annotations

import argparse
import hashlib
import importlib
import json
import multiprocessing as mp
import os
import sys
import time
import traceback

ROOT = os.path.dirname(os.path.dirname(os.path.abspath(__file__)))
# where evidence/ and replays/ are written: /verif itself, except for runs against a scratch copy of the repository
# (seed verification, mutation checks), which must never overwrite the evidence of the real tree
OUT = os.environ.get("PYVC_OUT") or ROOT
sys.path.insert(0, ROOT)

QUICK_TIMEOUT_MS = 10000
THOROUGH_TIMEOUT_MS = 60000


def load_property(pid):
    mod = importlib.import_module(f"contracts.{pid.lower()}")
    return mod


def targets_for(pid):
    from pyvc.contracts import REG
    fns = [c.target for c in REG.contracts.values() if c.prop == pid and c.mode == "verify"]
    lems = [l.ident for l in REG.lemmas.values() if l.prop == pid]
    return fns, lems


def _work(job):
    """Verify one function or lemma in a worker process; returns plain data."""
    pid, kind, target, tier, seed = job
    t0 = time.time()
    out = {"target": target, "kind": kind, "obligations": [], "error": None, "assumed": {}, "info": {}}
    try:
        mod = load_property(pid)
        from pyvc.verify import Engine, discharge
        from pyvc.values import EngineError
        from pyvc.contracts import REG
        e = Engine()
        con = REG.contracts.get(target)
        e.fp_mode = bool(con and (getattr(con, "fp", False) or getattr(con, "note", "") == "fp"))
        try:
            obs = e.verify_function(target) if kind == "fn" else e.verify_lemma(target)
        except EngineError as ex:
            out["error"] = f"inadmissible: {ex}"
            out["wall"] = time.time() - t0
            # the function left the supported subset: still search the real function for a contract violation
            if kind == "fn":
                try:
                    e.prepare_inputs(target)
                    rp_ = try_replay(e, mod, target, kind, None, seed)
                    if rp_.get("status") == "confirmed":
                        out["error"] = None
                        out["obligations"] = [{
                            "oid": f"{pid}/{target}/contract", "kind": "post", "descr": "contract of the function "
                            f"(function is outside the verifier's subset: {ex}); failing input found by small-scope search",
                            "queries": 0, "result": "refuted", "backends": ["native-search"], "time": 0.0,
                            "reason": f"inadmissible: {ex}", "exact": False, "replay": rp_, "lineno": 0}]
                        out["info"] = dict(e.fn_info.get(target, {}))
                except Exception:  # noqa: BLE001
                    pass
            return out
        tmo = QUICK_TIMEOUT_MS if tier == "quick" else THOROUGH_TIMEOUT_MS
        groups = {}
        from pyvc.par import discharge_all
        # (after two undecided queries per worker the remaining ones get a short budget)
        discharge_all(obs, tmo, int(os.environ.get("PYVC_SUBPROCS", "1")))
        # wall-clock budgets flip under machine load: the few obligations left open are retried with 4x the budget
        # (a verdict is only ever taken from unsat/sat, so a retry can only turn `unknown` into a decision)
        left = [o for o in obs if o.result == "unknown" and not getattr(o, "is_cover", False)]
        if 0 < len(left) <= 6:
            for o in left:
                try:
                    discharge(o, tmo * 4, use_cvc5=True)
                except Exception as ex:  # noqa: BLE001
                    o.result, o.reason = "unknown", f"solver crash: {type(ex).__name__}: {ex}"
        for o in obs:
            g = groups.setdefault(o.oid, {"oid": o.oid, "kind": o.kind, "descr": o.descr, "queries": 0, "result": "discharged",
                                          "backends": set(), "time": 0.0, "reason": "", "exact": True, "replay": None,
                                          "lineno": o.lineno})
            g["queries"] += 1
            g["time"] += o.time
            g["backends"].add(o.backend or "z3")
            g["exact"] = g["exact"] and o.exact
            if o.result == "refuted":
                if g["result"] != "refuted":
                    g["result"] = "refuted"
                    g["reason"] = o.reason
                    g["_ob"] = o
            elif o.result == "unknown" and g["result"] == "discharged":
                g["result"] = "unknown"
                g["reason"] = o.reason
        # replay refuted groups
        for g in groups.values():
            ob = g.pop("_ob", None)
            if g["result"] == "refuted":
                try:
                    g["replay"] = try_replay(e, mod, target, kind, ob, seed)
                except Exception as ex:  # noqa: BLE001
                    g["replay"] = {"status": "error", "detail": f"{type(ex).__name__}: {ex}",
                                   "trace": traceback.format_exc(limit=4)}
            g["backends"] = sorted(g["backends"])
        # undecided obligations: one small-scope native search of the function against its contract
        und = [g for g in groups.values() if g["result"] == "unknown" and g["kind"] != "cover"]
        if und and kind == "fn":
            try:
                rp_ = try_replay(e, mod, target, kind, None, seed, oids=[g["oid"] for g in und])
            except Exception as ex:  # noqa: BLE001
                rp_ = {"status": "error", "detail": f"{type(ex).__name__}: {ex}"}
            if rp_.get("status") == "confirmed":
                hit = next((g for g in und if g["oid"] == rp_.get("for_oid")), und[0])
                hit["result"] = "refuted"
                hit["reason"] = "solver undecided; failing input reproduced natively (witness schema / small-scope search)"
                hit["replay"] = rp_
        out["obligations"] = list(groups.values())
        out["assumed"] = dict(e.assumed_calls)
        out["info"] = dict(e.fn_info.get(target, {}))
        out["inlined"] = sorted(e.inlined)
        out["used_contracts"] = sorted(e.used_contracts)
        out["paths"] = e.npaths
    except Exception as ex:  # noqa: BLE001
        out["error"] = "crash: " + "".join(traceback.format_exception(type(ex), ex, ex.__traceback__, limit=8))
    out["wall"] = time.time() - t0
    return out


def try_replay(e, mod, target, kind, ob, seed, oids=None):
    """Find a concrete input on which the real function violates its contract.

    1. the solver's counter-model (re-solved with bounded containers so it can be materialised);
    2. a witness schema supplied by the contract module for this obligation;
    3. a type-directed small-scope search of the real function against its contract.
    """
    from pyvc import replay as rp
    from pyvc.contracts import REG
    from pyvc.enumerate import Scope
    res = {"status": "none", "attempts": []}
    witness = getattr(mod, "WITNESS", {})
    cand_oids = [ob.oid] if ob is not None else list(oids or [])
    for key, fn in witness.items():
        hit_oid = next((o_ for o_ in cand_oids if key in o_), None)
        if hit_oid is not None:
            try:
                w = fn()
            except Exception as ex:  # noqa: BLE001
                w = {"fails": False, "detail": f"witness crashed: {type(ex).__name__}: {ex}"}
            res["attempts"].append({"via": "witness-schema", **{k: v for k, v in w.items() if k != "fails"}})
            if w.get("fails"):
                res.update(status="confirmed", via="witness-schema", detail=w, for_oid=hit_oid)
                return res
    if kind != "fn":
        return res
    con = REG.contracts[target]
    native = getattr(mod, "NATIVE", {}).get(target)
    if native is None:
        try:
            native = rp.resolve_callable(target)
        except Exception as ex:  # noqa: BLE001
            res["attempts"].append({"via": "model", "detail": f"cannot import real function: {ex}"})
            return res
    names = list(e.input_vars)

    def run(decoded, via):
        info = run_once(decoded, via, False)
        if con.oneshot and info.get("contract_ok", True):
            # the same input once more with the one-shot parameters handed over as iterators (the contract is evaluated over the
            # sequence of elements the iterator yields)
            info2 = run_once(decoded, via + "+one-shot-iterator", True)
            if not info2.get("contract_ok", True):
                return info2
        return info

    def run_once(decoded, via, as_iterators):
        ctx = rp.Ctx(e)
        args = {}
        saved_globals = []
        for nme in names:
            if nme in con.ghost:
                continue
            val = ctx.real(decoded[nme])
            if nme.startswith("$g:"):
                modname, _, attr = nme[3:].rpartition(".")
                m_ = importlib.import_module(modname)
                saved_globals.append((m_, attr, getattr(m_, attr, None)))
                setattr(m_, attr, val)
                continue
            args[nme] = val
        call = native

        def shots(kw):
            if as_iterators:
                for p_ in con.oneshot:
                    if kw.get(p_) is not None:
                        kw[p_] = iter(list(kw[p_]))
            return kw
        if as_iterators:
            call = lambda **kw: native(**shots(kw))    # noqa: E731
        try:
            if "self" in args and not getattr(mod, "NATIVE", {}).get(target):
                slf = args.pop("self")
                meth = target.split("@")[0].split(":")[1].rsplit(".", 1)[1]
                bound = getattr(slf, meth)
                info = rp.native_check(target, con, {**args, "self": slf}, lambda self=None, **kw: bound(**shots(kw)))
            else:
                info = rp.native_check(target, con, args, call)
        finally:
            for m_, attr, old_ in saved_globals:
                setattr(m_, attr, old_)
        if saved_globals:
            info["globals"] = {f"{m_.__name__}.{attr}": repr(getattr(m_, attr))[:0] or "set for the call" for m_, attr, _ in saved_globals}
        info["via"] = via
        return info
    # 1. counter-model
    models = []
    if ob is not None and ob.model is not None:
        try:
            sm = None  # bounded re-solve disabled (quantified bounds time out); decoder truncates instead
        except Exception:  # noqa: BLE001
            sm = None
        if sm is not None:
            models.append(sm)
        models.append(ob.model)
    for m in models:
        try:
            dec = rp.Decoder(e, m)
            decoded = {nme: dec.value(v) for nme, v in e.input_vars.items()}
            info = run(decoded, "solver-model")
        except rp.DecodeError as ex:
            res["attempts"].append({"via": "solver-model", "detail": f"model not materialisable: {ex}"})
            continue
        except Exception as ex:  # noqa: BLE001
            res["attempts"].append({"via": "solver-model", "detail": f"replay harness error: {type(ex).__name__}: {ex}"})
            continue
        res["attempts"].append({k: info.get(k) for k in ("via", "outcome", "contract_ok", "failed_clauses", "args")})
        if not info.get("contract_ok", True):
            res.update(status="confirmed", via="solver-model", detail=info)
            return res
    # 3. small-scope search
    scope_kw = getattr(mod, "SCOPE", {}).get(target, {})
    sc = Scope(e, seed=seed, **scope_kw)
    tried = 0
    budget = getattr(mod, "SEARCH_BUDGET", 3000)
    t0 = time.time()
    while tried < budget and time.time() - t0 < 20:
        tried += 1
        try:
            sc.next_ref = 1
            decoded = {nme: sc.sample(v.t, path=nme) for nme, v in e.input_vars.items()}
            info = run(decoded, "small-scope-search")
        except (ValueError, rp.DecodeError) as ex:
            res["attempts"].append({"via": "small-scope-search", "detail": f"cannot enumerate inputs: {ex}"})
            break
        except Exception as ex:  # noqa: BLE001
            res["attempts"].append({"via": "small-scope-search", "detail": f"harness error: {type(ex).__name__}: {ex}"})
            break
        if not info.get("contract_ok", True):
            res["attempts"].append({"via": "small-scope-search", "tried": tried})
            res.update(status="confirmed", via="small-scope-search", detail=info)
            return res
    res["attempts"].append({"via": "small-scope-search", "tried": tried, "found": False})
    return res


# ---------------------------------------------------------------------------------------


def read_known(pid):
    """known_findings.txt: lines 'known: property=<id> obligation=<oid substring> :: <what fails>'."""
    path = os.path.join(ROOT, "known_findings.txt")
    out = []
    if not os.path.exists(path):
        return out
    for line in open(path, encoding="utf-8"):
        line = line.strip()
        if not line.startswith("known:"):
            continue
        body = line[len("known:"):].strip()
        head, _, what = body.partition("::")
        kv = dict(p.split("=", 1) for p in head.split() if "=" in p)
        if kv.get("property") == pid:
            out.append({"obligation": kv.get("obligation", ""), "class": kv.get("class", ""), "what": what.strip(),
                        "line": line})
    return out


def main(argv=None):
    ap = argparse.ArgumentParser()
    ap.add_argument("pid")
    ap.add_argument("--tier", default=os.environ.get("VERIF_TIER", "quick"), choices=["quick", "thorough"])
    ap.add_argument("--replay")
    ap.add_argument("--jobs", type=int, default=min(16, os.cpu_count() or 4))
    ap.add_argument("--only")
    ap.add_argument("-v", action="store_true")
    a = ap.parse_args(argv)
    pid = a.pid.upper()
    seed = int(os.environ.get("VERIF_SEED", "0") or 0)
    t0 = time.time()
    try:
        if a.replay:
            return do_replay(pid, a.replay)
        mod = load_property(pid)
        fns, lems = targets_for(pid)
        jobs = [(pid, "fn", t, a.tier, seed) for t in fns] + [(pid, "lemma", l, a.tier, seed) for l in lems]
        if a.only:
            jobs = [j for j in jobs if a.only in j[2]]
        results = []
        if jobs:
            # cores not needed for function-level parallelism go to obligation-level parallelism inside each function
            os.environ["PYVC_SUBPROCS"] = str(max(1, min(8, a.jobs // max(1, len(jobs)))))
            ctx = mp.get_context("fork")
            with ctx.Pool(min(a.jobs, len(jobs))) as pool:
                results = pool.map(_work, jobs, chunksize=1)
        bounded = []
        for bc in getattr(mod, "BOUNDED", []):
            bounded.append(bc(a.tier, seed))
        return report(pid, a, mod, results, bounded, seed, t0)
    except SystemExit:
        raise
    except Exception:  # noqa: BLE001
        traceback.print_exc()
        print(f"CHECKER-ERROR property={pid}")
        return 3


def classify(mod, g):
    f = getattr(mod, "classify", None)
    if f is None:
        return ""
    try:
        return f(g) or ""
    except Exception:  # noqa: BLE001
        return ""


def report(pid, a, mod, results, bounded, seed, t0):
    os.makedirs(os.path.join(OUT, "evidence"), exist_ok=True)
    os.makedirs(os.path.join(OUT, "replays"), exist_ok=True)
    known = read_known(pid)
    n_ob = n_dis = 0
    violations, undecided, errors, known_hit = [], [], [], []
    by_backend = {}
    solver_time = 0.0
    samples = []
    functions = []
    assumed = {}
    for r in results:
        functions.append({"target": r["target"], "kind": r["kind"], **r.get("info", {}),
                          "admitted": r["error"] is None, "error": r["error"], "wall_s": round(r.get("wall", 0), 2),
                          "inlined": r.get("inlined", []), "callee_contracts_used": r.get("used_contracts", []),
                          "paths": r.get("paths", 0)})
        for k, v in r.get("assumed", {}).items():
            assumed[k] = assumed.get(k, 0) + v
        if r["error"]:
            if r["error"].startswith("crash"):
                errors.append(r)
            else:
                undecided.append({"oid": f"{pid}/{r['target']}", "reason": r["error"]})
            continue
        for g in r["obligations"]:
            n_ob += 1
            solver_time += g["time"]
            for b in g["backends"]:
                by_backend[b] = by_backend.get(b, 0) + 1
            if len(samples) < 6:
                samples.append({"obligation": g["oid"], "what": g["descr"], "result": g["result"]})
            if g["result"] == "discharged":
                n_dis += 1
            elif g["result"] == "unknown":
                undecided.append({"oid": g["oid"], "reason": g["reason"] or "solver unknown", "descr": g["descr"]})
            else:
                g["target"] = r["target"]
                g["class"] = classify(mod, g)
                k = match_known(known, g)
                if k is not None:
                    known_hit.append((k, g))
                else:
                    violations.append(g)
    for b in bounded:
        for v in b.get("violations", []):
            g = {"oid": v["oid"], "descr": v.get("descr", ""), "result": "refuted", "exact": True, "target": v.get("target", ""),
                 "replay": {"status": "confirmed", "via": "bounded-check", "detail": v.get("detail")}, "class": v.get("class", ""),
                 "reason": "bounded contract check failed natively", "kind": "bounded"}
            k = match_known(known, g)
            if k is not None:
                known_hit.append((k, g))
            else:
                violations.append(g)
        for u in b.get("errors", []):
            errors.append({"target": b.get("name"), "error": u})
    # ---- decide
    lines = []
    vio_out = []
    for g in violations:
        rp_ = g.get("replay") or {}
        confirmed = rp_.get("status") == "confirmed"
        loopy = g["kind"] in ("inv-init", "inv-step", "dec", "dec-bound") or g["kind"].startswith("pre@")
        if confirmed:
            path = write_replay(pid, g)
            lines.append(f"VIOLATION property={pid} replay={path}")
            vio_out.append(g)
        elif g["exact"] and not loopy and g["kind"] in ("post", "raises", "assert", "frame", "lemma", "post-exc", "clsinv"):
            path = write_replay(pid, g)
            lines.append(f"VIOLATION property={pid} replay={path} no-failing-input-found")
            vio_out.append(g)
        else:
            undecided.append({"oid": g["oid"], "reason": "refuted by the solver but no failing input reproduced natively "
                              "(abstract encoding or loop-internal obligation)", "descr": g["descr"],
                              "attempts": rp_.get("attempts")})
    for k, g in known_hit:
        print(f"KNOWN-FINDING: property={pid} {k['what']} [{g['oid']}]")
    for ln in lines:
        print(ln)
    # vacuity
    vac_ok = n_ob > 0 or bool(bounded)
    exit_code = 0
    if errors:
        for e_ in errors:
            print(f"CHECKER-ERROR property={pid} target={e_.get('target')}\n{e_.get('error')}")
        # a violation confirmed by a native replay stands even if another part of the check crashed
        exit_code = 1 if vio_out else 3
    elif vio_out:
        exit_code = 1
    elif undecided:
        for u in undecided:
            print(f"UNDECIDED property={pid} obligation={u['oid']} reason={u['reason'][:300]}")
        exit_code = 2
    elif not vac_ok:
        print(f"CHECKER-ERROR property={pid}: zero obligations generated")
        exit_code = 3
    # ---- evidence
    meta = getattr(mod, "META", {})
    level = meta.get("level", "proof")
    from pyvc import extract
    from pyvc.contracts import REG
    cov = {
        "obligations": n_ob, "discharged": n_dis,
        "checker_cmd": f"./check {pid} --tier {a.tier}",
        "trusted_base": ["pyvc (this repository's VC generator, /verif/pyvc)", "z3 5.1.0", "cvc5 1.0.3 (fallback)",
                         "CPython ast parser"] + meta.get("trusted", []),
        "by_backend": by_backend, "solver_time_s": round(solver_time, 2),
        "functions_under_contract": functions,
        "samples": samples,
        "refuted": [{"obligation": g["oid"], "class": g.get("class", ""), "replay": (g.get("replay") or {}).get("via")} for g in vio_out],
        "known_findings_matched": [{"obligation": g["oid"], "finding": k["what"]} for k, g in known_hit],
        "undecided": undecided,
        "bounded_parts": [{k: v for k, v in b.items() if k not in ("violations", "errors")} for b in bounded],
        "extraction_drops": extract.DROPPED,
        "vacuity": {"obligations_nonzero": vac_ok,
                    "covers": sum(1 for r in results for g in r["obligations"] if g["kind"] == "cover")},
        "explanation": meta.get("explanation", ""),
    }
    if bounded:
        ev_total = sum(b.get("inputs_run", 0) for b in bounded)
        cov["evaluations"] = max(1, ev_total + n_ob)
        cov["distinct_nontrivial"] = max(2, sum(b.get("distinct_nontrivial", 0) for b in bounded) + n_dis)
        cov["rule"] = meta.get("rule", "obligations: one per contract clause/site; bounded parts: exhaustive small scope as stated per part")
    assumptions = list(meta.get("assumptions", [])) + list(REG.assumptions)
    assumptions += [f"{k} x{v}" for k, v in sorted(assumed.items())]
    assumed_contracts = sorted({c.target for c in REG.contracts.values() if c.mode == "assume"
                                and any(c.target in f["callee_contracts_used"] for f in functions)})
    assumptions += [f"assumed (trusted) contract: {t}" for t in assumed_contracts]
    ev = {"property_id": pid, "tier": a.tier, "seed": seed, "level": level, "coverage": cov, "assumptions": assumptions,
          "wall_s": round(time.time() - t0, 2), "violations": len(vio_out)}
    if level == "proof" and n_ob == 0:
        ev["level"] = "other"
        cov["explanation"] = cov["explanation"] or "bounded contract check only"
    with open(os.path.join(OUT, "evidence", f"{pid}.json"), "w", encoding="utf-8") as f:
        json.dump(ev, f, indent=1, default=str)
    print(f"{pid}: obligations={n_ob} discharged={n_dis} known={len(known_hit)} violations={len(vio_out)} "
          f"undecided={len(undecided)} bounded_parts={len(bounded)} wall={time.time() - t0:.1f}s exit={exit_code}")
    return exit_code


def match_known(known, g):
    for k in known:
        if k["obligation"] and k["obligation"] in g["oid"]:
            if not k["class"] or k["class"] == g.get("class", ""):
                return k
    return None


def write_replay(pid, g):
    h = hashlib.sha1((g["oid"] + "|" + str(g.get("class", ""))).encode()).hexdigest()[:10]     # one file per (obligation, witness class)
    path = os.path.join(OUT, "replays", f"{pid}-{h}.json")
    with open(path, "w", encoding="utf-8") as f:
        json.dump({"property": pid, "obligation": g["oid"], "what": g["descr"], "target": g.get("target"),
                   "class": g.get("class", ""), "solver": {"result": "refuted (negation satisfiable)",
                                                           "backends": g.get("backends"), "reason": g.get("reason")},
                   "replay": g.get("replay")}, f, indent=1, default=str)
    return path


def do_replay(pid, path):
    with open(path, encoding="utf-8") as f:
        data = json.load(f)
    print(json.dumps(data, indent=1)[:4000])
    # re-run the check restricted to the obligation's function to see whether it still fails
    tgt = data.get("target") or ""
    rc = main([pid, "--only", tgt.split(":")[-1]]) if tgt else main([pid])
    return rc


if __name__ == "__main__":
    sys.exit(main())
