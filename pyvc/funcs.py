"""Repository function calls: by contract, inlined, or unspecified; constructors."""
from __future__ import annotations

import ast

import z3

from . import extract
from .contracts import REG, Contract
from .exprs import Bag, BuiltinRef, ClassRef, FuncRef, MethodRef
from .state import Exc, FieldAlias, Frame, Outcome, State
from .types import (BOOL, FLOAT, INT, NONE, STR, T, TBool, TEnum, TFloat, TFP, TInt, TMap, TNone, TOpaque, TOpt, TRef,
                    TSeq, TSet, TStr, TTuple, comps, zsort)
from . import values as vals
from .values import (NONEV, EngineError, V, coerce, fresh, fresh_name, mk_bool, mk_int, opt_isnone, opt_val, truth)

MAX_INLINE_DEPTH = 6


class FuncMixin:
    # ------------------------------------------------------------------ parameter binding
    def fn_def(self, module, qual):
        return extract.find_def(module, qual)

    def bind_params(self, fdef: ast.FunctionDef, args, kw, bound_self, node, st):
        """name -> value ; also name -> arg node (for write-back)."""
        decos = [ast.unparse(d) for d in fdef.decorator_list]
        params = [a.arg for a in fdef.args.posonlyargs + fdef.args.args]
        is_static = "staticmethod" in decos
        is_clsm = "classmethod" in decos
        binding, nodes = {}, {}
        pos = list(args)
        pos_nodes = list(node.args) if isinstance(node, ast.Call) else []
        if len(pos_nodes) != len(pos):
            pos_nodes = [None] * len(pos)
        if bound_self is not None and not is_static:
            if is_clsm:
                params = params[1:]
            else:
                binding[params[0]] = bound_self
                params = params[1:]
        elif is_clsm and params:
            params = params[1:]
        if len(pos) > len(params) and fdef.args.vararg is None:
            raise EngineError(f"too many positional arguments for {fdef.name}")
        if any(isinstance(a, tuple) and a and a[0] == "$star" for a in pos[:len(params)]):
            raise EngineError(f"*args spread over named parameters in a call of {fdef.name}")
        if fdef.args.vararg is not None:
            extra = pos[len(params):]
            if len(extra) == 1 and isinstance(extra[0], tuple) and extra[0][0] == "$star":
                binding[fdef.args.vararg.arg] = extra[0][1]                 # f(*xs): the sequence itself
            elif any(isinstance(a, tuple) and a and a[0] == "$star" for a in extra):
                raise EngineError(f"mixed positional and *args in a call of {fdef.name}")
            elif extra:
                ev_ = [self.as_value(a) for a in extra]
                et = ev_[0].t
                for a in ev_[1:]:
                    et = vals.join_type(et, a.t)
                binding[fdef.args.vararg.arg] = vals.seq_from_list(et, [coerce(a, et) for a in ev_])
            else:
                binding[fdef.args.vararg.arg] = vals.empty_seq(NONE)
            pos = pos[:len(params)]
        if fdef.args.kwarg is not None and fdef.args.kwarg.arg not in binding:
            binding[fdef.args.kwarg.arg] = next(iter(self.ev_Dict(ast.Dict(keys=[], values=[]), st)))[1]   # no **kwargs passed
        for p, a, n in zip(params, pos, pos_nodes):
            binding[p] = a
            nodes[p] = n
        kwnodes = {k.arg: k.value for k in node.keywords} if isinstance(node, ast.Call) else {}
        for k, v in kw.items():
            binding[k] = v
            nodes[k] = kwnodes.get(k)
        # defaults
        allp = fdef.args.posonlyargs + fdef.args.args
        defaults = fdef.args.defaults
        for a, d in zip(allp[len(allp) - len(defaults):], defaults):
            if a.arg not in binding:
                binding[a.arg] = ("$default", d)
        for a, d in zip(fdef.args.kwonlyargs, fdef.args.kw_defaults):
            if a.arg not in binding and d is not None:
                binding[a.arg] = ("$default", d)
        for a in allp + fdef.args.kwonlyargs:
            if a.arg not in binding and not (is_clsm and a is allp[0]) and not (is_static and False):
                if bound_self is None and a is allp[0] and a.arg in ("self", "cls"):
                    continue
                raise EngineError(f"missing argument {a.arg!r} in call of {fdef.name}")
        return binding, nodes

    def param_types(self, fdef, con: Contract | None, cls):
        """Declared types of the parameters: contract sig overrides annotations."""
        out = {}
        for a in fdef.args.posonlyargs + fdef.args.args + fdef.args.kwonlyargs:
            if con is not None and a.arg in con.sig:
                out[a.arg] = self.ct.parse(con.sig[a.arg])
            elif a.arg == "self" and cls:
                out[a.arg] = TRef(cls)
            elif a.annotation is not None:
                try:
                    out[a.arg] = self.ct.parse(a.annotation)
                except EngineError:
                    pass
        for a in (fdef.args.vararg, fdef.args.kwarg):
            # *args / **kwargs take part only when the contract gives them a type (a list / a dict)
            if a is not None and con is not None and a.arg in con.sig:
                out[a.arg] = self.ct.parse(con.sig[a.arg])
        if con is not None:
            for g, ts in con.ghost.items():
                out[g] = self.ct.parse(ts)
        return out

    def narrow(self, st, v, t, box=False):
        """coerce, additionally narrowing Optional[T] to T when the path condition excludes None.
        box=True (calls by contract): a concrete value may be handed to a parameter of unknown type."""
        vi = v.t.inner if isinstance(v.t, TOpt) else v.t
        ti = t.inner if isinstance(t, TOpt) else t
        if isinstance(vi, TOpaque) and vi != ti and vi.nm in ("unk", "arith") + tuple(
                n for n in (vi.nm,) if n.startswith("attr_")):
            # a value of unknown type passed where the callee declares a type: some value of that type
            self.note_assumed(f"opaque value passed as {t}: treated as an arbitrary value of that type")
            return fresh(t, "cast")
        if isinstance(vi, TOpaque) and not isinstance(v.t, TOpt) and isinstance(ti, (TStr, TInt, TBool, TFP, TFloat)) \
                and not isinstance(t, TOpt):
            # a value of unknown type that the code has found to be a str/int/float (isinstance test) and passes on as such:
            # its content is a fixed function of the object
            self.note_assumed(f"opaque value used as {t}: its {t} content is an uninterpreted function of the value")
            return V(ti, [z3.Function(f"view_{ti}{('_' + s_) if s_ else ''}", zsort(vi), so_)(v.zs[0]) for s_, so_ in comps(ti)])
        if box and isinstance(ti, TFP) and isinstance(v.t, (TInt, TBool)) and not isinstance(t, TOpt):
            # an int handed to a float-typed parameter stays an int in Python; its sign, zero-ness and order against
            # other numbers are those of its correctly rounded double (magnitudes beyond the double range excluded)
            self.note_assumed("int passed to a float-typed parameter: modelled by its correctly rounded double")
            return vals.mk_fp(z3.fpRealToFP(vals.RNE, z3.ToReal(coerce(v, INT).z), vals.FP64))
        if box and isinstance(ti, TOpaque) and not isinstance(t, TOpt) and not isinstance(v.t, (TOpt, TOpaque)) \
                and isinstance(vi, (TStr, TInt, TBool, TFP, TFloat, TSeq, TSet, TMap, TTuple)) and comps(vi):
            # a concrete value handed to a parameter of unknown type: the same value seen as an opaque object
            box = z3.Function(f"box_{vi}", *[so_ for _, so_ in comps(vi)], zsort(ti))
            return V(ti, [box(*v.zs)])
        if isinstance(vi, TOpaque) and isinstance(ti, TOpaque) and vi != ti and not isinstance(v.t, TOpt) \
                and not isinstance(t, TOpt):
            return V(ti, [z3.Function(f"relabel_{vi.nm}_{ti.nm}", zsort(vi), zsort(ti))(v.zs[0])])
        if isinstance(vi, TRef) and isinstance(ti, TRef) and vi.cls != ti.cls and \
                (self.ct.is_subclass(vi.cls, ti.cls) or self.ct.is_subclass(ti.cls, vi.cls)):
            # up-cast (or a down-cast the callee's dynamic dispatch implies): same reference, other static type
            v = V(TOpt(ti), v.zs) if isinstance(v.t, TOpt) else V(ti, v.zs)
        if isinstance(v.t, TOpt) and not isinstance(t, TOpt) and not isinstance(t, TNone):
            if self.spec or self.dry or self.entails(st, z3.Not(opt_isnone(v))):
                return coerce(opt_val(v), t)
        return coerce(v, t)

    def return_type(self, fdef, con):
        if con is not None and con.returns is not None:
            return self.ct.parse(con.returns)
        if fdef.returns is not None:
            try:
                return self.ct.parse(fdef.returns)
            except EngineError:
                return TOpaque("unk")
        if con is None:
            return TOpaque("unk")      # no annotation and no contract: nothing is known about the result
        return NONE

    def materialise_defaults(self, st, binding, module, cls, target, fdef):
        """Evaluate ('$default', node) entries in the callee's module context."""
        out = {}
        for k, v in binding.items():
            if isinstance(v, tuple) and v and v[0] == "$default":
                s2 = st.fork()
                s2.frames.append(Frame(module, cls, target, fdef, {}))
                (_, dv), = self._single(v[1], s2)
                out[k] = dv
            else:
                out[k] = v
        return out

    # ------------------------------------------------------------------ call dispatch
    @staticmethod
    def _fits(have, want):
        """Exact fit of an argument type to a variant's parameter type (bool is not int here: variants are disjoint)."""
        return type(have) is type(want) and str(have) == str(want)

    def call_function(self, st, fr: FuncRef, args, kw, node, is_property=False):
        module, qual = fr.module, fr.qual
        cls = None
        con = None
        if "." in qual:
            cls, mname = qual.rsplit(".", 1)
            if cls in self.ct.classes:
                recv_cls = fr.cls or cls
                dcls, con = self.ct.contract_for(recv_cls, mname)
                if dcls is not None and con is None:
                    m = self.ct.method(recv_cls, mname)
                    cls = m[0]
                    module = self.ct.classes[cls].module
                    qual = f"{cls}.{mname}"
                elif con is not None:
                    cls = dcls
                    module = self.ct.classes[cls].module
                    qual = f"{cls}.{mname}"
        target = f"{module}:{qual}"
        if con is None and fr.bound_self is None:
            # "target@variant" contracts: the same function under several typings - pick the one the arguments fit
            variants = [c for t, c in REG.contracts.items() if t.startswith(target + "@")]
            if variants:
                pos = [self.as_value(a) for a in args if isinstance(a, (V,))]
                for c in variants:
                    want = [self.ct.parse(ts) for ts in list(c.sig.values())[:len(pos)]]
                    if len(want) == len(pos) and all(self._fits(a.t, w) for a, w in zip(pos, want)):
                        con = c
                        break
        if con is None:
            con = REG.contracts.get(target)
        try:
            fdef = self.fn_def(module, qual)
        except (LookupError, FileNotFoundError):
            if con is None:
                raise EngineError(f"cannot find definition of {target}")
            fdef = None
        if fdef is not None and not isinstance(fdef, ast.FunctionDef):
            raise EngineError(f"{target} is not a function")
        mode = con.mode if con is not None else None
        if con is not None and mode in ("verify", "assume"):
            yield from self.call_by_contract(st, con, fdef, module, cls, target, args, kw, fr.bound_self, node)
            return
        inline = mode == "inline" or (con is None and (is_property or target in self.auto_inline))
        if inline:
            yield from self.call_inline(st, fdef, module, cls, target, args, kw, fr.bound_self, node)
            return
        # unspecified call: assumed pure and total
        self.note_assumed(f"unspecified call {target} (assumed pure, total, no effect on tracked state)")
        rt = self.return_type(fdef, None) if fdef is not None else TOpaque("unk")
        r = fresh(rt, "unspec") if comps(rt) or isinstance(rt, TNone) else NONEV
        st = self.assume_wf(st, r) if isinstance(r, V) and comps(r.t) else st
        yield st, r

    # ------------------------------------------------------------------ contract application
    def call_by_contract(self, st, con: Contract, fdef, module, cls, target, args, kw, bound_self, node):
        self.used_contracts.add(con.target)
        if fdef is not None:
            binding, nodes = self.bind_params(fdef, args, kw, bound_self, node, st)
            binding = self.materialise_defaults(st, binding, module, cls, target, fdef)
            ptypes = self.param_types(fdef, con, cls)
        else:
            names = [n for n in con.sig if n != "self"]
            binding, nodes = {}, {}
            if bound_self is not None:
                binding["self"] = bound_self
            for nme, a in zip(names, list(args)):
                binding[nme] = a
            binding.update(kw)
            ptypes = {k: self.ct.parse(v) for k, v in con.sig.items()}
        locs = {}
        for k, v in binding.items():
            if isinstance(v, Bag):
                if k in ptypes and isinstance(ptypes[k], TSet):
                    st, v = self.bag_to_set(st, v)
                else:
                    st, v = self.bag_to_seq(st, v)
            if isinstance(v, V) and k in ptypes:
                try:
                    v = self.narrow(st, v, ptypes[k], box=True)
                except EngineError as e:
                    raise EngineError(f"argument {k!r} of {target}: {e}")
            locs[k] = v
        for g, ts in con.ghost.items():
            if g not in locs:
                locs[g] = fresh(self.ct.parse(ts), g)
        pre = st.fork()
        pre.frames.append(Frame(module, cls, target, fdef, locs))
        pre.old = None
        # preconditions are obligations of the caller
        k = self.ordinal("pre", node) if node is not None else 0
        if con.terminates and target == self.cur_target and len(st.frames) == 1 and st.old is not None:
            # recursive call: the termination measure decreases and is bounded below
            m_new = coerce(self.spec_eval(con.terminates, pre), INT).z
            m_old = coerce(self.spec_eval(con.terminates, st.old), INT).z
            self.oblige(st, "dec", f"#rec{k}", z3.And(m_new < m_old, m_old >= 0),
                        descr=f"termination measure {con.terminates!r} decreases at the recursive call", node=node)
        for i, r in enumerate(con.requires):
            gv, gax = self.spec_eval_full(r, pre)
            g = z3.And(*gax, truth(gv)) if gax else truth(gv)
            self.oblige(st, f"pre@{target.split(':')[1]}", f"#{k}.{i}",
                        z3.Implies(z3.And(*gax), truth(gv)) if gax else truth(gv),
                        descr=f"precondition {r!r} of {target}", node=node)
            st = st.assume(g)   # continue under the precondition (its failure is already reported)
            pre.pc.append(g)
        if not self.dry and not self.spec and not self.feasible(st):
            return
        # havoc the frame
        post = pre.fork()
        post.pc = list(st.pc)
        post.old = pre
        # time may pass inside the callee: the ghost clock moves forward (never backwards)
        c_prev = st.ghost.get("$clock", z3.Real("clock0"))
        c_new = z3.Real(fresh_name("clock"))
        post.pc.append(c_new >= c_prev)
        post.ghost["$clock"] = c_new
        writebacks = []
        # the callee may allocate: the allocation pointer only grows (objects it stores into modified fields may be new)
        # (a callee that modifies nothing cannot publish an object: its allocations stay invisible)
        if con.modifies:
            na = z3.Int(fresh_name("alloc_c"))
            post.pc.append(na >= post.alloc)
            post.alloc = na
        for lv in con.modifies:
            post, wb = self.havoc_lvalue(post, lv, nodes, eval_st=pre)
            if wb is not None:
                writebacks.append(wb)
        rt = self.return_type(fdef, con) if fdef is not None else (self.ct.parse(con.returns) if con.returns else NONE)
        if con.fresh_result and isinstance(rt, TRef):
            post, result = self.allocate(post, rt.cls)
            for f, (dc, ft) in self.ct.all_fields(rt.cls).items():
                post = self.field_write(post, result.z, rt.cls, f, fresh(ft, f))
                _, fv = self.field_read(post, result.z, rt.cls, f)
                post = self.assume_wf(post, fv)
        else:
            result = fresh(rt, "res") if comps(rt) else NONEV
            post = self.assume_wf(post, result) if comps(rt) else post
        # exceptional successors
        for ename, cond in con.raises.items():
            ex = post.fork()
            c = self.spec_bool(cond, pre)
            ex.pc.append(c)
            for cl in con.ensures_on_raise:
                ex.pc.append(self.spec_bool(cl, ex))
            exs = self.leave_callee(ex, st, writebacks)
            self.raise_(exs, ename if ename != "*" else "$any")
        # normal successor
        post.frame.locals["ret" if "result" in locs else "result"] = result
        for cl in con.ensures:
            post.pc.append(self.spec_bool(cl, post))
        out = self.leave_callee(post, st, writebacks)
        if not self.dry and not self.spec and not self.feasible(out):
            return
        yield out, result

    def leave_callee(self, callee_st: State, caller_st: State, writebacks) -> State:
        """Pop the callee frame; write modified container parameters back to the caller's lvalues."""
        out = callee_st.fork()
        fr = out.frames.pop()
        out.old = caller_st.old
        for pname, argnode in writebacks:
            if argnode is None:
                continue
            out = self.assign_to(out, argnode, fr.locals[pname], mut=True)
        return out

    def havoc_lvalue(self, st: State, lv: str, nodes, eval_st: State | None = None):
        """Havoc the location named by a modifies entry.  The object owning the location is found in `eval_st` (the
        callee's pre-state) so that `x.f` and `x.f.g` in one modifies list both refer to the objects at call time."""
        lv = lv.strip()
        node = ast.parse(lv, mode="eval").body
        if isinstance(node, ast.Name):
            cur = st.frame.locals.get(node.id)
            if not isinstance(cur, V):
                raise EngineError(f"modifies {lv}: not a value parameter")
            if isinstance(cur.t, TRef):
                # all fields of the object
                s2 = st
                for f, (dc, ft) in self.ct.all_fields(cur.t.cls).items():
                    nv = fresh(ft, f"{f}_h")
                    s2 = self.field_write(s2, cur.z, cur.t.cls, f, nv)
                    s2 = self.assume_wf(s2, nv)
                return s2, None
            nv = fresh(cur.t, node.id + "_h")
            s2 = st.with_local(node.id, nv)
            s2 = self.assume_wf(s2, nv)
            return s2, (node.id, nodes.get(node.id))
        if isinstance(node, ast.Attribute):
            self.spec += 1
            try:
                (_, base), = self._single(node.value, eval_st if eval_st is not None else st)
            finally:
                self.spec -= 1
            base = self.as_value(base)
            if isinstance(base.t, TOpt):
                base = opt_val(base)
            if node.attr == "ALL":
                s2 = st
                for f, (dc, ft) in self.ct.all_fields(base.t.cls).items():
                    nv = fresh(ft, f"{f}_h")
                    s2 = self.field_write(s2, base.z, base.t.cls, f, nv)
                    s2 = self.assume_wf(s2, nv)
                return s2, None
            fd = self.ct.field(base.t.cls, node.attr)
            if fd is None:
                raise EngineError(f"modifies {lv}: unknown field")
            nv = fresh(fd[1], node.attr + "_h")
            s2 = self.field_write(st, base.z, base.t.cls, node.attr, nv)
            s2 = self.assume_wf(s2, nv)
            return s2, None
        if isinstance(node, ast.Subscript) and isinstance(node.slice, ast.Constant) and node.slice.value == "*":
            # "Class.field[*]": the field of every object of the class
            cls_field = node.value
            cname, fname = cls_field.value.id, cls_field.attr
            fd = self.ct.field(cname, fname)
            s2 = st.fork()
            s2.heap[(fd[0], fname)] = [z3.Const(fresh_name(f"H_{fd[0]}_{fname}"), a.sort())
                                      for a in self.heap_arrays(st, fd[0], fname, fd[1])]
            if self.dry:
                self.dry_writes.append((fd[0], fname, None))
            return s2, None
        raise EngineError(f"modifies entry {lv!r}")

    # ------------------------------------------------------------------ inlining
    def call_inline(self, st, fdef, module, cls, target, args, kw, bound_self, node):
        depth = sum(1 for f in st.frames if f.target == target)
        if depth >= 2 or len(st.frames) > MAX_INLINE_DEPTH + 2:
            raise EngineError(f"recursive/too deep inlining of {target}")
        binding, nodes = self.bind_params(fdef, args, kw, bound_self, node, st)
        binding = self.materialise_defaults(st, binding, module, cls, target, fdef)
        ptypes = self.param_types(fdef, None, cls)
        locs = {}
        for k, v in binding.items():
            if isinstance(v, V) and k in ptypes:
                try:
                    v = self.narrow(st, v, ptypes[k])
                except EngineError:
                    pass
            locs[k] = v
        s2 = st.fork()
        s2.frames.append(Frame(module, cls, target, fdef, locs))
        self.inlined.add(target)
        decos = [ast.unparse(d) for d in fdef.decorator_list]
        outs = self.exec_block(fdef.body, s2)
        for o in outs:
            cst = o.st.fork()
            fr = cst.frames.pop()
            # copy-out of container parameters that were rebound to new values
            for p, argnode in nodes.items():
                nv = fr.locals.get(p)
                ov = locs.get(p)
                if argnode is not None and isinstance(nv, V) and isinstance(nv.t, (TSet, TMap, TSeq)) \
                        and isinstance(ov, V) and nv is not ov and isinstance(argnode, (ast.Name, ast.Attribute)) \
                        and p in self.mutated_names(fdef):
                    cst = self.assign_to(cst, argnode, nv, mut=True)
            if o.kind in ("ok", "ret"):
                yield cst, (o.val if o.kind == "ret" and o.val is not None else NONEV)
            elif o.kind == "exc":
                self.excs[-1].append(Outcome("exc", cst, o.val))
            else:
                raise EngineError(f"{o.kind} escapes function {target}")

    def mutated_names(self, fdef):
        """Names whose container is mutated in place somewhere in the function (syntactic)."""
        key = id(fdef)
        if key in self._mut_cache:
            return self._mut_cache[key]
        from .calls import MAP_MUTATORS, SEQ_MUTATORS, SET_MUTATORS
        muts = SET_MUTATORS | MAP_MUTATORS | SEQ_MUTATORS
        out = set()
        for n in ast.walk(fdef):
            if isinstance(n, ast.Call) and isinstance(n.func, ast.Attribute) and n.func.attr in muts \
                    and isinstance(n.func.value, ast.Name):
                out.add(n.func.value.id)
            if isinstance(n, (ast.Assign, ast.AugAssign, ast.Delete)):
                tgts = n.targets if isinstance(n, (ast.Assign, ast.Delete)) else [n.target]
                for t in tgts:
                    if isinstance(t, ast.Subscript) and isinstance(t.value, ast.Name):
                        out.add(t.value.id)
        self._mut_cache[key] = out
        return out

    # ------------------------------------------------------------------ constructors
    def construct(self, st, cname, args, kw, node):
        if cname in self.ct.env.enums:
            raise EngineError("enum construction by value")
        if cname not in self.ct.classes and cname in ("OrderedSet", "FrozenOrderedSet"):
            # pynguin's ordered set used as a plain (finite) set: its order is not tracked outside C34
            yield from self.call_builtin(st, "set", args, kw, node)
            return
        if cname not in self.ct.classes:
            # exception classes and unknown classes: opaque object
            yield st, fresh(TOpaque(cname), "obj")
            return
        ci = self.ct.classes[cname]
        if ci.spec is not None and ci.spec.record:
            rt = self.ct.env.aliases[cname]
            given = dict(zip(rt.names, args))
            given.update(kw)
            items = []
            for nme, it in zip(rt.names, rt.items):
                if nme not in given:
                    if nme not in ci.defaults:
                        raise EngineError(f"record {cname}: missing field {nme}")
                    (st, dv), = self._single(ci.defaults[nme], st)      # dataclass default (a literal)
                    given[nme] = dv
                items.append(coerce(self.as_value(given[nme]), it))
            yield st, V(rt, [z for i in items for z in i.zs])
            return
        if ci.spec is not None and ci.spec.value_like:
            yield from self.call_builtin(st, ci.spec.value_like, args, kw, node)
            return
        st1, ref = self.allocate(st, cname)
        # fields of a fresh object start unconstrained unless assigned by __init__/dataclass
        dcls_con = self.ct.contract_for(cname, "__init__")
        init = self.ct.method(cname, "__init__")
        if dcls_con[1] is not None:
            fr = FuncRef(self.ct.classes[dcls_con[0]].module, f"{dcls_con[0]}.__init__", bound_self=ref, cls=cname)
            for st2, _ in self.call_function(st1, fr, args, kw, node):
                yield st2, ref
            return
        if init is not None:
            fr = FuncRef(self.ct.classes[init[0]].module, f"{init[0]}.__init__", bound_self=ref, cls=cname)
            for st2, _ in self.call_inline(st1, init[1], self.ct.classes[init[0]].module, init[0],
                                           f"{self.ct.classes[init[0]].module}:{init[0]}.__init__", args, kw, ref, node):
                yield st2, ref
            return
        # dataclass-style: positional order = field order along the mro (bases first)
        order = []
        for c in reversed(self.ct.mro(cname)):
            for f in self.ct.classes[c].field_order:
                if f not in order and f not in self.ct.classes[c].ghost:
                    order.append(f)
        given = dict(zip(order, args))
        given.update(kw)
        cur = st1
        # ghost fields of a new object start at their zero value
        for c in self.ct.mro(cname):
            for gf in self.ct.classes[c].ghost:
                cur = self.field_write(cur, ref.z, cname, gf, vals.default(self.ct.classes[c].fields[gf]))
        for f in order:
            fd = self.ct.field(cname, f)
            if f in given:
                val = given[f]
                if isinstance(val, Bag):
                    if isinstance(fd[1], TSet):
                        cur, val = self.bag_to_set(cur, val)
                    else:
                        cur, val = self.bag_to_seq(cur, val)
                cur = self.field_write(cur, ref.z, cname, f, self.as_value(val))
                continue
            dnode = None
            for c in self.ct.mro(cname):
                if f in self.ct.classes[c].defaults:
                    dnode = self.ct.classes[c].defaults[f]
                    dmod = self.ct.classes[c].module
                    break
            if dnode is None:
                raise EngineError(f"constructor {cname}: missing argument {f}")
            cur, dv = self.eval_field_default(cur, dnode, dmod, fd[1])
            cur = self.field_write(cur, ref.z, cname, f, dv)
        yield cur, ref

    def eval_field_default(self, st, dnode, module, ftype):
        if isinstance(dnode, ast.Call) and getattr(dnode.func, "id", getattr(dnode.func, "attr", "")) == "field":
            for k in dnode.keywords:
                if k.arg == "default":
                    return self.eval_field_default(st, k.value, module, ftype)
                if k.arg == "default_factory":
                    fac = k.value
                    nm = fac.id if isinstance(fac, ast.Name) else getattr(fac, "attr", None)
                    if nm in ("set", "OrderedSet", "frozenset") and isinstance(ftype, TSet):
                        return st, vals.empty_set(ftype.elem)
                    if nm == "dict" and isinstance(ftype, TMap):
                        return st, vals.empty_map(ftype)
                    if nm == "list" and isinstance(ftype, TSeq):
                        return st, vals.empty_seq(ftype.elem)
                    if nm in self.ct.classes:
                        (s2, v), = list(self.construct(st, nm, [], {}, dnode))
                        return s2, v
                    self.note_assumed(f"default_factory {ast.unparse(fac)} (fresh unconstrained value)")
                    v = fresh(ftype, "dflt")
                    return self.assume_wf(st, v), v
            raise EngineError("field() without default")
        s2 = st.fork()
        s2.frames.append(Frame(module, None, "<default>", None, {}))
        (_, v), = self._single(dnode, s2)
        return st, coerce(self.as_value(v), ftype)
