#!/usr/bin/env python3
"""Debug driver: .venv/bin/python tools/dbg.py cNN [substr] [-v] [-t ms]  -- per-obligation results of the functions of one property."""
import os, sys, time, traceback
ROOT = os.path.dirname(os.path.dirname(os.path.abspath(__file__)))
sys.path.insert(0, ROOT)
args = [a for a in sys.argv[1:] if not a.startswith("-")]
verbose = "-v" in sys.argv
tmo = int(sys.argv[sys.argv.index("-t") + 1]) if "-t" in sys.argv else 10000
if "-t" in sys.argv:
    args = [a for a in args if a != str(tmo)]
pid = args[0].upper()
sub = args[1] if len(args) > 1 else ""
from pyvc.runner import load_property, targets_for
mod = load_property(pid)
from pyvc.verify import Engine, discharge
from pyvc.values import EngineError
fns, lems = targets_for(pid)
for kind, t in [("fn", f) for f in fns] + [("lemma", l) for l in lems]:
    if sub and sub not in t:
        continue
    e = Engine()
    t0 = time.time()
    try:
        obs = e.verify_function(t) if kind == "fn" else e.verify_lemma(t)
    except EngineError as ex:
        print(f"## {t}: INADMISSIBLE {ex}")
        if verbose:
            traceback.print_exc()
        continue
    except Exception:
        print(f"## {t}: CRASH")
        traceback.print_exc()
        continue
    print(f"## {t}: {len(obs)} obligations, {e.npaths} paths, gen {time.time()-t0:.1f}s; assumed calls: {dict(e.assumed_calls)}")
    for o in obs:
        if getattr(o, "is_cover", False):
            continue
        discharge(o, tmo)
        if o.result != "discharged" or verbose:
            print(f"   {o.result:10s} {o.oid} [{o.backend}] {o.time:.1f}s {o.descr[:150]} {o.reason[:200] if o.result!='discharged' else ''}")
            if o.result == "refuted" and o.model is not None and verbose:
                print("      model:", str(o.model)[:1500])
