"""What MANIFEST.json claims per property (edited by hand as checks come up)."""

NA_REASONS = {
    "C09": "soundness of a dynamic slice is a statement about data/control dependence of CPython bytecode executions; no "
           "contract within reach of an SMT-backed verifier over the 900-line stateful slicer can express it, and a bounded "
           "run without an independent dependence oracle decides nothing (DESIGN.md C09)",
    "C16": "byte-identical output across PYTHONHASHSEED values is a whole-pipeline property about hash-iteration order inside "
           "CPython and every dependency; no function contract can name that state (DESIGN.md C16)",
    "C18": "the oracle is pytest importing and running emitted files against arbitrary modules; function-level pieces are "
           "claimed under C19/C20/C23 instead (DESIGN.md C18)",
    "C24": "the inverse pair is libcst printing plus a 1000-line deserializer resolving names against a live cluster; neither "
           "side has a specification other than the other side (DESIGN.md C24)",
    "C31": "agreement across a process boundary has no single-call contract; the only oracle is running both executors, which "
           "is differential testing, a different technique (DESIGN.md C31)",
}

NOT_APPLICABLE = dict(NA_REASONS)

CLAIMS = {
    "C10": {
        "category": "proof",
        "text": "Unbounded proof, per function, that fitness is finite and non-negative and that the covered verdict equals "
                "'fitness == 0' for the branch-distance suite fitness (normalise, _predicate_fitness, "
                "compute_branch_distance_fitness, compute_branch_distance_fitness_is_covered), from VCs generated from the "
                "current source; floats are extended reals (inf/NaN modelled, rounding not).",
        "note": "assumes: floats as extended reals without rounding (A-FLOAT-R); traces well-formed (wf_trace: same key set "
                "of the three predicate maps, distances >= 0 and not NaN) - established by the trace writers under C11; "
                "container ownership (A-OWN); logging calls are no-ops. Trusted: pyvc, z3, CPython's ast.",
    },
}
