"""What MANIFEST.json claims per property (edited by hand as checks come up)."""

NA_REASONS = {
    "C09": "soundness of a dynamic slice is a statement about data/control dependence of CPython bytecode executions; no "
           "contract within reach of an SMT-backed verifier over the 900-line stateful slicer can express it, and a bounded "
           "run without an independent dependence oracle decides nothing (DESIGN.md C09)",
    "C16": "byte-identical output across PYTHONHASHSEED values is a whole-pipeline property about hash-iteration order inside "
           "CPython and every dependency; no function contract can name that state (DESIGN.md C16)",
    "C18": "the oracle is pytest importing and running emitted files against arbitrary modules; function-level pieces are "
           "claimed under C19/C20/C23 instead (DESIGN.md C18)",
    "C24": "the inverse pair is libcst printing plus a 1000-line deserializer resolving names against a live cluster; neither "
           "side has a specification other than the other side (DESIGN.md C24)",
    "C31": "agreement across a process boundary has no single-call contract; the only oracle is running both executors, which "
           "is differential testing, a different technique (DESIGN.md C31)",
}

NOT_APPLICABLE = dict(NA_REASONS)

CLAIMS = {
    "C10": {
        "category": "proof",
        "text": "Unbounded proof, per function, that fitness is finite and non-negative and that the covered verdict equals "
                "'fitness == 0' for the branch-distance suite fitness (normalise, _predicate_fitness, "
                "compute_branch_distance_fitness, compute_branch_distance_fitness_is_covered), from VCs generated from the "
                "current source; floats are extended reals (inf/NaN modelled, rounding not).",
        "note": "assumes: floats as extended reals without rounding (A-FLOAT-R); traces well-formed (wf_trace: same key set "
                "of the three predicate maps, distances >= 0 and not NaN) - established by the trace writers under C11; "
                "container ownership (A-OWN); logging calls are no-ops. Trusted: pyvc, z3, CPython's ast.",
    },
    "C11": {
        "category": "proof",
        "text": "Unbounded proof that ExecutionTrace.merge/_merge_min/update_predicate_distances compute the pointwise "
                "min/sum/union view (so merging is commutative/associative on the coverage-relevant view), that they preserve "
                "trace well-formedness, and that analyze_results folds them: a branch is covered by the merged trace iff some "
                "merged test covers it, merged distances are lower bounds and counts upper bounds of every merged test.",
        "note": "assumes floats as extended reals (A-FLOAT-R), container ownership (A-OWN). Monotonicity of the suite-level "
                "*sums* (fitness is a finite sum of per-branch terms) is not discharged by the solver; only the per-branch "
                "facts are. ExecutionTrace.__eq__ order-sensitivity (OrderedSet, instruction list) is outside the claim.",
    },
    "C17": {
        "category": "proof",
        "text": "Unbounded proof with a typestate ghost: every algorithm's generate_tests (MOSA, DynaMOSA, MIO, WholeSuite, "
                "Random, both random-search variants) runs a search step only after a positive resources_left() check "
                "since the last iteration boundary, and completed iterations never exceed the iteration budget; the three "
                "budget conditions' counters/is_fulfilled, resources_left, the observer fan-out of "
                "before_search_start/after_search_iteration and the factory's get_stopping_conditions (every configured "
                "budget yields a condition with that limit) are verified against contracts.",
        "note": "assumed: search steps (evolve, local_search, generate_sequence, _update_parameters) do not touch the "
                "iteration counters (their bodies are not verified); calls to unmodelled attributes/objects have no effect "
                "on the stopping conditions; the factory registers every stopping condition once as search observer "
                "(wf_alg, precondition). Time/memory/plateau conditions are unconstrained.",
    },
    "C33": {
        "category": "proof",
        "text": "Unbounded proof of the master's restart protocol on the real RunningTask/MasterProcess code: the remaining "
                "search time after a crash is floor(max(old - elapsed, 0)), strictly smaller when time has passed; _restart "
                "starts a worker only while search time remains and strictly reduces it; get_result terminates (measure: "
                "remaining search time) and returns either an object received from the pipe or an ERROR result.",
        "note": "assumed library contracts: Connection.recv returns or raises (EOF when the worker died), Process.start does "
                "not block, successive time.time() readings strictly increase. The worker side (worker_main) and "
                "PynguinClient.run_pynguin are not yet under contract.",
    },
    "C05": {
        "category": "proof",
        "text": "Unbounded proof that the tracer's enabled flag at the exit of temporarily_disable/temporarily_enable and of "
                "every recorder callback (executed_*_predicate, executed_exception_match, executed_code_object, "
                "track_line_visit, track_generic/memory_access/attribute_access/jump/call/return, _extract_arguments) equals "
                "the flag at entry on normal AND on exceptional exit, for arbitrary values of the module under test (every "
                "operation on them may raise anything), and that _early_return skips the recorder only while disabled.",
        "note": "values of the module under test are opaque: every operation on them has an unknown result and may raise "
                "(opaque_raise); distance helpers and _update_metrics are used through assumed contracts (may raise "
                "anything / AssertionError); thread-locality of TracerLocalState is assumed; the executor-side hooks "
                "(_before/_after_statement_execution) are not yet under contract.",
    },
    "C34": {
        "category": "proof",
        "text": "Unbounded proof (z3/cvc5, VCs generated from the real source on every run) for the methods that work on the "
                "backing dict directly - __init__, __len__, __contains__, __getitem__, add, discard, clear, update, "
                "intersection_update, difference_update, symmetric_difference_update - with the dict modelled as a finite map "
                "plus an insertion rank: each mutator's postcondition states the resulting member set exactly, that members "
                "that stay keep their relative order, that old members precede new ones and that new members are ordered by "
                "their first occurrence in the argument; __getitem__(i) returns the i-th key of the iteration view for "
                "-len <= i < len and raises IndexError exactly otherwise. The remaining operations (union, intersection, "
                "difference, symmetric_difference, issubset, issuperset, __eq__, __reversed__, freeze, __hash__; one-shot "
                "iterators and self-aliasing arguments for all operations) are covered by the bounded stand-in only: the real "
                "classes against the reference model 'duplicate-free list' over an exhaustive small scope. One-shot iterators "
                "as arguments of __init__, update, intersection_update and symmetric_difference_update are covered by a typestate "
                "obligation per use and path (the parameter goes into exactly one traversal), replayed natively with iter(xs).",
        "technique": "contract-based deductive verification (sidecar contracts, loop invariants over member set and rank) + "
                     "bounded contract check, exhaustive small scope",
        "note": "assumed (A-ODICT): dict semantics - a new key is ranked above all existing keys, deletion and a dict "
                "comprehension over the dict itself keep relative ranks, dict.fromkeys inserts in iteration order, iteration "
                "visits the keys in rank order; elements are abstract values whose == and hash agree with identity; iterable "
                "arguments are sequences in the proof; A-ITER-1: a function that hands a parameter to exactly one traversal behaves on "
                "an iterator yielding xs as on xs; arguments that read lazily from the set itself: bounded part only.",
    },
    "C19": {
        "category": "proof",
        "text": "Unbounded proof (loop invariant over the backward pass) that TestCase.remove_unused_variables keeps, for "
                "every statement, exactly its assertions, accessible object and ML info and never invents a binding; the "
                "export step (TestSuiteWriter._build_test_function) is covered by a bounded stand-in only: every "
                "assertion is emitted right after its statement, in order, over all test cases of <= 2 statements with "
                "<= 2 assertions of six kinds each and both exception patterns.",
        "note": "libcst nodes and used_variables()/_asserted_variables() are opaque (unspecified, assumed pure); the "
                "export part is bounded, never counted as proved (its forall-forall-exists invariant stays undecided in z3 "
                "and cvc5); AssertionMinimization and the writer's import logic are not under contract.",
    },
    "C21": {
        "category": "proof",
        "text": "Unbounded proof that _select_minimal_assertions (greedy set cover + pruning, five loops with invariants "
                "and a termination measure) returns keys of the kill map whose kill sets cover exactly the mutants killed "
                "by the full set and never a key with an empty kill set, and that _MutationMetrics.get_score lies in "
                "[0,1] and equals killed/(created - timed out); the partition of mutants into killed/timed-out/survived "
                "and the metrics built from it are covered by a bounded stand-in (all lists of <= 5 mutants).",
        "note": "assertion keys are abstract values (AKey) with structural equality; finite-set cardinality facts "
                "(subset => <=, strict subset => <) are assumed (A-CARD); 'kept assertions hold on re-execution' depends "
                "on executor determinism and is outside the proof; the summary part is bounded, never counted as proved.",
    },
    "C13": {
        "category": "proof",
        "text": "Unbounded proof on the real CoverageArchive and MIOPopulation: update keeps covered ∪ uncovered = objectives "
                "(disjoint), covered goals only grow, every entry is the old one or a given solution that covers the goal, a "
                "goal covered by a given solution ends up covered, the running best always is the stored entry; "
                "_is_better_than_current equals the statement's order (error-free where the old one was not, else strictly "
                "shorter); add_goals/reset/solutions keep the invariant; MIOPopulation never exceeds its capacity, a covered "
                "target stays covered with exactly one solution; DynaMOSA's local_search never modifies an archived "
                "chromosome (it works on clones).",
        "note": "coverage verdict, last result and size of a chromosome are abstract observations (uninterpreted, unchanged "
                "during an archive operation); callbacks are assumed not to touch the archive; list.sort/clone/"
                "create_test_suite/TestSuiteLocalSearch.local_search are assumed contracts; 'covers when re-executed' "
                "relies on C12's determinism assumption; MIOArchive.update and _GoalsManager.update are not yet under contract.",
    },
    "C04": {
        "category": "proof",
        "text": "Unbounded proof over IEEE-754 doubles (z3 FP theory, cvc5 for real-to-float rounding) and mathematical ints "
                "of the real distance functions under every pairing of int/bool/float operands (and str pairs, int-in-list): "
                "_numeric_gap is positive, not NaN and never raises (no OverflowError); _eq/_neq/_lt/_le/_in/_nin return a "
                "non-negative non-NaN distance that is 0.0 exactly when Python's own operator holds (int-float comparisons "
                "exact, NaN unordered); for values of unknown type every distance is >= 0 and not NaN; _opposite is 0.0 "
                "exactly when the evaluated comparison's distance is positive; each recorder (compare, bool, in-presence, "
                "exception match) hands _update_metrics two non-negative non-NaN distances exactly one of which is 0.0, so "
                "the tracer's own assertions never fire inside the code under test.",
        "note": "assumed: the three string helpers of type_utils (string_distance, string_lt/le_distance) - checked only by "
                "the bounded part (all pairs of strings/bytes of length <= 2 or 3 over a 4-6 letter alphabet), never counted "
                "as proved; values of the module under test are opaque (unknown results, may raise anything), so 'the zero "
                "distance is the outcome Python produces' is proved for the typed variants only; reflected operators "
                "(v2 < v1 for v1 > v2) are taken to agree with Python's own; Decimal/Fraction/complex operands are covered "
                "only as opaque values; temporarily_disable is C05's, update_predicate_distances C11's.",
    },
    "C14": {
        "category": "proof",
        "text": "Unbounded proof on the real comparators and operators: compare/PreferenceSortingComparator.compare/"
                "DominanceComparator.compare return -1/0/1 exactly for 'preferred' resp. Pareto dominance; _get_zero_front "
                "returns, for every uncovered goal, a solution at least as good (fitness, then length) as every solution, "
                "ranked 0; fast_epsilon_dominance_assignment leaves every distance in [0, 1) and never divides by zero; "
                "random and tournament selection return an index inside the population (ValueError only for an empty one); "
                "RankSelection.get_index is inside the population for every bias in (1, 2].",
        "note": "fitness/length are pure observations FIT/LEN, fitness not NaN (C10/C12); the lower bound of rank selection "
                "and the absence of ValueError are discharged for real arithmetic only (A-FLOAT-R) - its upper bound holds "
                "by the final min() whatever the rounding; _get_non_dominated_solutions and compute_ranking_assignment "
                "(list.remove / `in` with user-defined __eq__) are NOT proved: bounded stand-in over all populations of <= 3 "
                "(thorough: 4) stand-in chromosomes with fitness in {0,1,2}^2; rank selection in IEEE doubles is sampled on a "
                "grid (bounded, not exhaustive); 'never prefers a worse rank' is checked only as monotonicity of the index in "
                "the random value on that grid; the else-branch of compute_ranking_assignment (first front already fills the "
                "population) puts all remaining solutions into one front by design and is excluded from 'later fronts are "
                "non-dominated sets'.",
    },
    "C12": {
        "category": "proof",
        "text": "Unbounded proof, per function, of the cache invariant 'changed flag up, or every cached value equals F/COV of "
                "the chromosome's current content': ComputationCache fill/invalidate/query methods (a query returns the "
                "recomputed value, clears the flag and raises no KeyError for a registered function - including queries for "
                "different functions in any order via the size comparison), clone/constructors copy a valid cache, "
                "registering a function keeps it valid, and every operator that can change tests (splice_test_case/"
                "suite_chromosomes, TestCaseMutation.mutate and its delete/change/insert helpers, TestSuiteMutation.mutate, "
                "add/set/add-many on suites, the chromosome trampolines) raises the flag whenever content changed and never "
                "lowers it.",
        "note": "assumed: fitness/coverage functions are deterministic functions of content (F, COV; the property's own "
                "assumption); the libcst TestCase and the TestFactory are abstract (ghost g_code) with assumed contracts: "
                "clone copies content, a mutator returning False/-1 left the test unchanged, __eq__ True implies equal "
                "content; a suite's content is the set of its non-empty tests and their contents and no two tests of a suite "
                "share a TestCase object (precondition OWN); get_fitness/get_coverage (sum/mean), set_*_values, "
                "delete_test_case_chromosome, local search and the histories themselves (composition of the per-function "
                "contracts) are not discharged by the solver.",
    },
    "C35": {
        "category": "proof",
        "text": "Unbounded proof of the report helpers on the real code: CoverageEntry/LineAnnotation addition is componentwise; "
                "_get_line_to_branch_coverage and _get_line_to_branchless_code_object_coverage return, per source line, an "
                "entry for exactly the lines that carry a predicate / branch-less code object, with 0 <= covered <= existing "
                "(2 per predicate, even), 'covered == existing' exactly when every outcome of every predicate (every code "
                "object) on that line is covered by the merged trace and 'covered > 0' exactly when some is; "
                "_get_line_annotations_for_branch_coverage copies those entries and its total is their sum.",
        "note": "the totals clause of the statement (report totals == tracked coverage; annotations sum to totals; line shown "
                "covered iff covered) is about get_coverage_report, which is outside the verifier's subset (closures, "
                "inspect, configuration) and about sums over dict values (no induction): it is checked only by the bounded "
                "stand-in (real get_coverage_report over an exhaustively enumerated small registry/suite scope, stated in "
                "the evidence), never counted as proved. Assumed: registered line numbers lie inside the module source; line "
                "ids map injectively to line numbers; the HTML/XML renderers are not covered.",
    },
    "C23": {
        "category": "proof",
        "text": "Unbounded proof over mathematical ints and IEEE-754 doubles (z3 FP theory) of the scalar renderers and parsers of "
                "literalgen on the real code: _int_to_cst yields an Integer / -Integer node with a decimal token whose value is "
                "the int, _parse_int inverts it (lemma: parse(render(n)) == n for every int); _float_to_cst yields a literal "
                "whose evaluation is the very same double incl. the sign of zero, +-inf and NaN (float('inf')/float('nan') call "
                "form, valid tokens), _parse_float returns that double or None and never a different value (lemma: "
                "parse(render(x)) is x for every finite double); _complex_to_cst/_parse_component/_parse_complex do the same "
                "componentwise; _mutate_bool flips True/False.",
        "note": "assumed (A-STRNUM): str(int)/int(str) inverse on decimal digit tokens, float(repr(x)) is x for finite x, repr of "
                "a finite double contains '.' or 'e' and a leading '-' exactly for negative-signed values, repr(str) is a literal "
                "token evaluating to the string; libcst nodes are modelled as field records and libcst's token validation is "
                "assumed to accept decimal/float tokens. Strings, bytes, collections (literal_to_cst/_collection_to_cst/"
                "parse_literal via ast.literal_eval) and generate_literal/mutate_literal (random draws) are covered only by the "
                "bounded stand-in (fixed value list incl. nasty strings and nested containers; seeded draws), never counted as "
                "proved.",
    },
    "C29": {
        "category": "other",
        "text": "Bounded stand-in for the statement itself (not a proof): the real FilesystemIsolation is run around every history "
                "of one and two file operations (thorough: plus 30000 seeded histories of three) over 52 operations - open/"
                "Path.open/os.open in r/w/a/r+ modes, mkdir/makedirs/Path.mkdir with exist_ok, touch, write_text/bytes, rename/"
                "replace onto new and pre-existing targets, copyfile/copy/copy2/copytree/move, remove/unlink/rmdir/rmtree, failing "
                "calls whose exception the caller swallows - on a sandbox holding a pre-existing file, non-empty directory and "
                "empty directory; the tree is compared byte for byte before and after. In addition the bookkeeping helpers are "
                "proved (unbounded, z3): _record_created adds exactly the normalised non-None paths, _forget removes exactly "
                "them, _get_arg returns the positional argument or a keyword value, _is_write_mode is the w/a/x/+ test.",
        "technique": "bounded contract check, exhaustive over histories of length <= 2 (the tracked wrappers are closures over "
                     "*args/**kwargs installed by unittest.mock.patch around os/shutil/pathlib calls: outside the verifier's "
                     "subset) + deductive proof of the bookkeeping helpers",
        "note": "the helper proofs do not by themselves imply the statement; operations outside the patch table (os.symlink, "
                "os.truncate, os.link, file descriptors, subprocesses) are not isolated by design and not in the scope; symlinks "
                "and concurrent modification are not explored.",
    },
    "C20": {
        "category": "other",
        "text": "Bounded stand-in for the statement (not a proof): the real pipeline RemoteAssertionTraceObserver._check_value -> "
                "assertion_to_cst -> compile -> exec against the observed value, in a namespace holding pytest, the module alias "
                "and the module's public names, over a fixed list of ~70 scalar values (huge/negative ints, bools, None, str/bytes "
                "with quotes, backslashes, control, non-BMP and surrogate characters, floats incl. -0.0, subnormals, max double, "
                "inf, NaN, complex incl. NaN/inf components, Enum/IntEnum/StrEnum/Flag members incl. composite flags) each alone "
                "and wrapped in list/tuple/set/frozenset/dict (as key and as value) up to depth 5, plus dicts with non-literal "
                "keys, objects, types, sized objects, iterators, functions. In addition _make_float_literal is proved over IEEE "
                "doubles (z3 FP theory): every libcst constructor precondition holds (valid Float token, quoted string) and the "
                "literal evaluates to a double equal to the value (NaN to NaN).",
        "technique": "bounded contract check over a fixed value scope (the renderer recurses over arbitrary Python values with "
                     "dynamic type tests: outside the verifier's subset) + deductive proof of the float literal helper",
        "note": "no unbounded claim for _value_to_cst/is_assertable; pytest.approx semantics and libcst token validation are "
                "trusted; names of enum classes are assumed to be public names of the module under test (bound in the test file).",
    },
    "C15": {
        "category": "other",
        "text": "Two parts. (1) Proved for all inputs (VCs from the real AST, z3/cvc5): TestCase.append_test_case_from -- the "
                "building block of single-point crossover -- together with _resolve_head_references, add_statement, next_var_name, "
                "variables_of_type, statements and _VariableRenamer.__init__: if both parents are well-formed (every test-case "
                "variable a statement reads is bound by an earlier statement; bound names pairwise distinct, below the name "
                "counter and registered under their type), then so is the result, for any cut point and any number of statements "
                "(loop invariants over the rename map, the dropped set and the head types). Assumed, not proved: "
                "Statement.used_variables returns the variable names of the libcst node (USED), CSTNode.visit(_VariableRenamer) "
                "renames exactly the names in the map and keeps the node kind, randomness.choice returns a member. "
                "(2) Bounded stand-in (not a proof): the real TestCase operations (append_test_case_from through the real "
                "splice_test_case_chromosomes, chop, remove_statement_with_forward_dependencies, forward_dependencies, clone, "
                "remove_unused_variables) are run on every well-formed test case of <= 2 (thorough: 3) statements as first parent "
                "and <= 3 statements as second parent over 7 statement templates (typed/untyped bindings, calls without binding, "
                "statements reading two variables), every pair of cut points and two length limits; after each operation the "
                "result is checked for: valid Python, every read variable bound by an earlier statement, pairwise distinct bound "
                "names below the name counter, type registry equal to the statements, length within the maximum, other parent "
                "unchanged, forward closure complete.",
        "technique": "contract-based deductive verification of the crossover building block (pyvc: sidecar contracts, loop "
                     "invariants with a derived cut, VCs from the real source) plus a bounded contract check, exhaustive small "
                     "scope, for the remaining TestCase operations",
        "note": "the property as a whole is not claimed proved: the test factory (insertion, deletion and change of statements, "
                "2.7k lines of libcst manipulation) and local search are not covered; 'valid Python' is checked only in the "
                "bounded part, by parsing the rendered test case; the libcst visitor contracts are assumptions.",
    },
    "C22": {
        "category": "other",
        "text": "Bounded stand-in (not a proof): the real generator._minimize runs with a real instrumented executor on a 4-function "
                "module over a seeded sample of the enumerated suites (1-2 test cases, each 1-2 (thorough 3) call blocks out of 6 "
                "that cover different branches and overlap between tests), with and without assertions, under CASE/SUITE/COMBINED "
                "x FORWARD/BACKWARD; afterwards the coverage of every optimised function is re-measured by executing the "
                "minimized tests in fresh chromosomes and must equal the original, no foreign statement may appear, and asserted "
                "statements of kept test cases must survive.",
        "technique": "bounded contract check on enumerated small suites (the minimization visitors drive the executor and libcst "
                     "test cases: outside the verifier's subset; the ghost-coverage proof planned in DESIGN.md is not built)",
        "note": "no unbounded claim. Known finding (recorded): a suite of tests that never call the module under test is minimized "
                "to the empty suite, for which the coverage functions report 0.0 instead of the import-time coverage. The SUITE "
                "strategy removing a whole redundant test case (with its assertions) is treated as intended.",
    },
    "C27": {
        "category": "proof",
        "text": "Unbounded proof (SMT strings) on the real functions of analyses/module.py: __is_private/__is_protected/"
                "__is_constructor equal their name predicates; __should_skip_by_visibility equals the statement's table (ALL: "
                "never; PROTECTED: private or name-mangled; PUBLIC: private or protected; outside the module under test always "
                "the PUBLIC rule; dunder names never skipped); __analyse_function and __analyse_method call "
                "add_accessible_object_under_test at most once and only when add_to_test holds and the last segment of the "
                "callable's name (for lambdas also the assigned name) is eligible under the configured visibility, and never for "
                "__init__ as a method.",
        "note": "the 'exactly' direction over real modules - which objects vars(module)/inspect deliver, that add_to_test is "
                "'defined in the module under test', classes, enums, aliases, ignore lists - is covered only by the bounded "
                "stand-in (real generate_test_cluster on one feature-rich generated module under PUBLIC/PROTECTED/ALL with and "
                "without an ignore list, compared with an oracle written from the statement), never counted as proved. "
                "__is_name_mangled is a regular-expression match kept abstract (MANGLED) in the proofs and tabulated in the "
                "bounded part; callables of the module under test are opaque values; a constructor's name is __init__ (class "
                "names are not filtered - pinned by the repository's tests).",
    },
    "C28": {
        "category": "other",
        "text": "Bounded stand-in (not a proof): (1) _stratified_counts on every size vector of length <= 4 with entries <= 6 and "
                "every cap: the counts sum to min(cap, total) and lie in 0..size; _round_robin interleaves its lists round by round "
                "(exhaustive over <= 3 lists of length <= 3); (2) all standard and experimental mutation operators with the real "
                "FirstOrderMutator/HighOrderMutator on a hand-written feature module and the sources of bisect and heapq "
                "(thorough: textwrap): every first-order mutant equals a fresh parse of the original in which only the mutated "
                "node is replaced and differs from the original, mutation_count equals the full enumeration (also under a cap), "
                "sampled/reordered enumerations are sub-multisets of the full one with exactly min(cap, total) mutants, and the "
                "original AST dump is unchanged after every completed enumeration (full, counted, capped, reordered, four "
                "higher-order strategies).",
        "technique": "bounded contract check (the operators are in-place mutate-and-restore generators over Python ASTs: "
                     "outside the verifier's subset; the sampling arithmetic needs induction over sums)",
        "note": "no unbounded claim; abandoning a mutant generator before it is exhausted (which leaves the shared AST mutated) "
                "is outside the statement and not explored; that each mutant's *behaviour* differs is not checked (only its AST).",
    },
    "C30": {
        "category": "other",
        "text": "Bounded stand-in (not a proof): the real TestCaseExecutor, set up in the generator's order (_patch_random, import "
                "hook, import), executes every history of 0, 1 and 2 test cases (thorough: + 300 of length 3) out of 10 whose "
                "code prints, raises, closes sys.stdout/sys.stderr, closes fds 1/2, replaces sys.stdout, disables/enables "
                "logging, reseeds and consumes the module-level random and two long-lived random.Random instances; after every "
                "execution sys.stdout/sys.stderr identity and closedness, fds 0-2, the logging disable level and the state of "
                "randomness.RNG are compared with the state before, and each of 3 probe test cases (random draws, conditional "
                "exception, printing) must give the same result (timeout flag, exceptions, covered lines, predicates) as after "
                "the empty history.",
        "technique": "bounded contract check over enumerated execution histories (threads, OS file descriptors, process-global "
                     "logging/random state: no function contract in the verifier's subset expresses them)",
        "note": "no unbounded claim; modules with hidden state of their own are outside the statement; subprocess execution "
                "is not covered (C31).",
    },
    "C32": {
        "category": "other",
        "text": "Bounded stand-in (not a proof): the real TestCaseExecutor with a 0.25 s timeout and the assertion-trace observer "
                "attached runs 5 non-terminating or over-long test cases on an instrumented module (busy loop, sleeping loop, a "
                "long uninstrumented sleep followed by instrumented code, an object whose __len__ polls while the observer has "
                "tracing switched off, a late exception), waits 0 / 0.1 / 1.1 s (thorough: six delays) and then runs one of two "
                "terminating test cases: the timeout must be reported within 2 x timeout + 1 s with an empty result and the "
                "terminating test case's result (exceptions, covered lines, predicates with distances, code objects) must equal "
                "its result on a quiet executor.",
        "technique": "bounded scenario check (this family is silent on thread schedules: the sequential contracts planned in "
                     "DESIGN.md - fresh trace object per execution, check() before every recorder - are not built; schedules are "
                     "sampled by varying the delay, not enumerated)",
        "note": "no unbounded claim and no exploration of interleavings; timing based, with generous slack (1 s) so that machine "
                "load does not raise alarms; a straggler that outlives the 3 s the harness waits between scenarios may leak into "
                "the next scenario's reference comparison (it would show as a violation, never mask one).",
    },
    "C25": {
        "category": "other",
        "text": "Bounded stand-in (not a proof): the real TypeSystem built by generate_test_cluster from generated modules - 8 "
                "(thorough: all 64) inheritance DAGs on 4 classes incl. chain, diamond and unrelated classes, numeric tower on - is "
                "checked over ~80 proper types (the classes, int/float/bool/complex/str, None, Any, list/set/dict/tuple of them, "
                "binary unions, unions nested in tuples and lists, unions of tuples): reflexivity, 'everything is a subtype of "
                "Any', the union rule, is_subtype implies is_maybe_subtype, the two distance laws on all ordered pairs, "
                "transitivity on all triples, and is_subclass against Python's issubclass plus the tower.",
        "technique": "bounded contract check, exhaustive over pairs/triples of a fixed family of small types (the visitors recurse "
                     "over a type ADT with lru_cache and networkx path queries; the per-visitor induction planned in DESIGN.md is "
                     "not built)",
        "note": "no unbounded claim. Known findings (recorded, each with its witness class): transitivity fails through types "
                "containing Any (Any is top and bottom by design); subtype_distance is defined for generics with covariantly "
                "related arguments although the subtype checks are invariant; subtype_distance(T, T) is not 0 for Any, for types "
                "containing Any and for unions without an Instance member.",
    },
    "C26": {
        "category": "other",
        "text": "Bounded stand-in (not a proof): rank-selection and random-selection clusters built by generate_test_cluster from "
                "one generated module (class hierarchy, container/union return types, un-annotated factories) are queried for 25 "
                "requested types before and after ordered triples of update_return_type observations and after an "
                "add_subclass_edge: every offered generator must return a type that is_maybe_subtype of the request, both "
                "providers must offer the same generators, cached provider answers must equal those of a provider rebuilt from "
                "the final generator table, and cached is_subclass answers must equal nx.has_path on the final graph.",
        "technique": "bounded contract check (lru_cache-d methods over a networkx graph and a mutable generator table; the "
                     "ghost-validity treatment of lru_cache planned in DESIGN.md is not built)",
        "note": "no unbounded claim. Known findings (recorded with witness classes): the rank provider offers generators whose "
                "generic arguments are only covariantly related (list[Circle] for list[Shape]); the providers differ for such "
                "requests, for unions sharing only None, and for primitive requests (rank provider returns nothing by design).",
    },
    "C06": {
        "category": "other",
        "text": "Bounded stand-in (not a proof): the real ControlDependenceGraph.compute, get_control_dependencies and "
                "is_control_dependent_on_root are compared with the statement's definition - an independent set-based "
                "post-dominator fixed point over the same (augmented) CFG - on (1) every control-flow shaped digraph on 1-3 basic "
                "blocks (thorough: plus a seeded seventh of those on 4; out-degree <= 2, two-way nodes labelled True/False, all "
                "blocks reachable and reaching the exit, self-loops included) built directly as CFG objects, and (2) all code "
                "objects of a 24-function template module and of bisect and heapq (thorough: textwrap, dis) through the real "
                "CFG.from_bytecode: single entry/exit, reachability, edge set, edge labels and root dependence must agree.",
        "technique": "bounded contract check, exhaustive over small graphs (the construction is networkx calls - immediate "
                     "dominators, lowest common ancestors - end to end; an SMT-backed generator has no induction principle for "
                     "graphs)",
        "note": "no unbounded claim; the oracle (40 lines) is trusted; Python 3.12 bytecode only.",
    },
    "C07": {
        "category": "proof",
        "text": "Unbounded proof (nested loop invariants over sets, z3/cvc5) on the real _GoalsManager: the constructor makes the "
                "root goals the current goals of the (fresh) archive, and update() preserves the frontier invariant - the "
                "archive's uncovered objectives are exactly the current goals, and every structural child of every covered goal "
                "is covered or current - never loses a goal (old current goals are covered or still current), only grows the "
                "covered set and leaves current and covered goals disjoint. Hence a goal becomes current as soon as a chain of "
                "covered goals leads from a root goal to it.",
        "note": "the goal graph itself (_BranchFitnessGraph._build_graph: every dependency of a registered predicate is a "
                "registered predicate, construction never fails, every goal reachable from a root goal) depends on the CDG and on "
                "the exclusion re-linking of the instrumentation and is covered only by the bounded stand-in (real "
                "instrumentation, goal pool, archive and manager on 4 modules with the 'no cover' marker on every single line, "
                "thorough: every pair), never counted as proved; get_structural_children and root_branches are abstracted by "
                "uninterpreted CH/ROOTS; the CoverageArchive contracts are those proved under C13; termination of update() is not "
                "proved.",
    },
    "C08": {
        "category": "proof",
        "text": "Unbounded proof on the real code of the line-level decision: AstInfo._in_cover is False for every no-cover line and "
                "otherwise True exactly when only_cover is empty, or names the line, some (not excluded) line of the scope, or an "
                "enclosing definition; ModuleAstInfo.__post_init__ raises ValueError exactly when only-cover and no-cover lines "
                "overlap.",
        "note": "the statement itself - no goal inside excluded code, every executable line outside it is a goal - depends on the "
                "AST walks of should_cover_line / should_be_covered / should_cover_conditional_statement, on the bytecode "
                "instrumentation and on install_import_hook; it is covered only by the bounded stand-in (a 45-line template "
                "module through the real import hook with a marker on every single code line, every scope name as no_cover / "
                "only_cover / ignore_methods entry and their pairs), never counted as proved. Oracle conventions: a marked "
                "if/for/while/try header excludes its first suite, a marked else/except/finally line its clause, a marked def/"
                "class line or a named scope the whole scope; 'with' is not conditional (only the marked line is excluded); "
                "'executable line' = line goal of the module without exclusions. scope_line_range and nodes_of_class are "
                "abstracted by uninterpreted LO/HI/DEFS.",
    },
    "C01": {
        "category": "other",
        "text": "Bounded stand-in (not a proof), harness H-prog: a module of 28 functions (every comparison kind, None tests, "
                "truthiness, boolean operators, chained comparisons, loops with break/continue/else, try/except/else/finally, "
                "comprehensions, str.startswith/endswith/isX, subscripts, generators, with, match, conditional expressions, "
                "lambda, assert, printing, argument mutation) x ~430 argument vectors (ints beyond 2**53 and 1e308, NaN, +-inf, "
                "-0.0, Decimal incl. sNaN and overflowing differences, Fraction, complex, str/bytes, containers, one-shot "
                "iterators, objects with partial or side-effecting comparison protocols): the call of the module instrumented "
                "through the real import hook (dynamic seeding on) under {BRANCH}, {LINE}, {BRANCH, LINE} must return / raise / "
                "print / mutate its arguments exactly like the uninstrumented call.",
        "technique": "bounded differential contract check (the uninstrumented run is the oracle)",
        "note": "no unbounded claim: the statement quantifies over all programs and needs a semantics of CPython bytecode execution; the stack-machine lemma on the injected instruction sequences planned in DESIGN.md is not built. CHECKED coverage is covered by C01's second part only; Python 3.12 bytecode only; outcomes and lines are compared per source line, not per bytecode offset. Known findings (recorded per function): the tracer re-evaluates user comparison/truth operators (side effects "
                "run again) and consumes one-shot iterators in membership tests (the TypeError of the seeding instrumentation for "
                "startswith / endswith with a tuple argument was repaired in 6a95df4).",
    },
    "C02": {
        "category": "other",
        "text": "Bounded stand-in (not a proof), harness H-prog (see C01): the interpreter's own LINE events (sys.monitoring) of the "
                "uninstrumented call against the line ids the real tracer reports for the instrumented call (translated by "
                "lineids_to_linenos, import-time lines removed on both sides) under {LINE} and {BRANCH, LINE}; every executed line "
                "must be a registered line and the reported set must equal the executed registered set.",
        "technique": "bounded differential contract check (sys.monitoring LINE events are the oracle)",
        "note": "no unbounded claim: the statement quantifies over all programs and needs a semantics of CPython bytecode execution; the stack-machine lemma on the injected instruction sequences planned in DESIGN.md is not built. CHECKED coverage is covered by C01's second part only; Python 3.12 bytecode only; outcomes and lines are compared per source line, not per bytecode offset. Known finding: a consequence of the C01 one-shot-iterator finding (the second one went with the repair 6a95df4).",
    },
    "C03": {
        "category": "other",
        "text": "Bounded stand-in (not a proof), harness H-prog (see C01): the interpreter's own BRANCH events (sys.monitoring; "
                "POP_JUMP_IF_*, FOR_ITER mapped to (line, outcome)) of the uninstrumented call against the (predicate, outcome) "
                "pairs the real tracer reports with distance 0 for the instrumented call, under {BRANCH} and {BRANCH, LINE}.",
        "technique": "bounded differential contract check (sys.monitoring BRANCH events are the oracle)",
        "note": "no unbounded claim: the statement quantifies over all programs and needs a semantics of CPython bytecode execution; the stack-machine lemma on the injected instruction sequences planned in DESIGN.md is not built. CHECKED coverage is covered by C01's second part only; Python 3.12 bytecode only; outcomes and lines are compared per source line, not per bytecode offset. Known findings: a membership test that raises TypeError ('1 in 5') is recorded as the False outcome (pinned by "
                "the repository's tests); one consequence of the C01 iterator finding.",
    },
}


# additions of round 3 (appended to the claim texts above)
ROUND3 = {
    'C35': " The oracle merges the test specifications itself (minimum distances, unions) instead of calling analyze_results, and building a report must leave the execution results of the suite's test cases unchanged.",
    'C06': ' The template module includes never-ending loops made of several cycles (while True around for / if / while / continue).',
    'C04': ' The value sampler of the native replay includes one-shot iterators (a membership test consumes them).',
    'C02': ' Second part: the same comparison on the stdlib corpus (copies of 24 pure-Python standard-library modules, ~850 fixed calls; see C01).',
    'C10': " Also proved: the fitness / coverage function objects the search uses (BranchDistanceTestSuiteFitnessFunction, BranchDistanceTestCaseFitnessFunction, LineTestSuiteFitnessFunction.compute_is_covered, TestSuite/TestCaseBranchCoverageFunction, TestSuiteLineCoverageFunction) return exactly the metric functions' values on one and the same merged trace of the chromosome's execution results (running the chromosome and merging enter as assumed functions RESULTS / MERGED), so fitness, covered verdict and coverage of one chromosome agree. Bounded addition (and witness for those obligations): the real suite-level objects on a real instrumented executor over every subset of size <= 3 (thorough: all subsets) of 7 test cases, one of which never terminates and one of which raises.",
    'C12': " Bounded addition: both cache layers (values in the ComputationCache, execution result on the chromosome) on real execution-based functions and a real executor whose execute() raises RuntimeError at a chosen execution (as its docstring allows): test case chromosomes and two-member suites are evaluated, changed, queried through each query method with or without a fault, queried again and compared with a chromosome built from scratch (268 histories).",
    'C01': " Second part: the same comparison under {CHECKED} and {CHECKED, LINE} (checked coverage rewrites every load, store, attribute, subscript, slice, call, jump and return), every function in a process of its own because a wrong rewrite can crash the interpreter; a process that dies or cannot import the instrumented module is a violation. This part found three defects of the checked-coverage instrumentation on Python 3.12 (with statements, slices, inlined comprehensions), fixed in 64b7246, 7498902, 09850f7. H-prog additions: a while loop around try/except/finally, bytes operands that are not valid UTF-8. Third part: the stdlib corpus - copies of 24 pure-Python standard-library modules (bisect, heapq, textwrap, colorsys, fnmatch, shlex, posixpath, difflib, string, statistics, ipaddress, urllib.parse, graphlib, copy, pprint, fractions, calendar, json.decoder, json.encoder, tokenize, configparser, argparse, _pydatetime, re._parser) with ~850 fixed calls, compared in the same way under {BRANCH}, {LINE}, {BRANCH, LINE} and (one process per module) {CHECKED}; a module that cannot be imported through the import hook is a violation. It found three more instrumentation defects (dynamic seeding next to a TryEnd, super() attribute access and a call at the start of a block under checked coverage), fixed in 57392e4, 33489f9, 88905f4. Fourth part: a seeded sample of 64 (thorough: all ~510) files of the standard library is instrumented (not run) with branch + line + seeding adapters and with the checked-coverage adapter; any exception is a violation.",
    'C03': " The entry of a branch-less code object is compared as well (reported as executed exactly when sys.monitoring saw a line of it, import-time entries subtracted). Second part: the same comparison on the stdlib corpus (copies of 24 pure-Python standard-library modules, ~850 fixed calls; see C01).",
    'C15': " (3) Bounded, sampled: 800 (4000) seeded random histories of 14 operations out of 15 - the mutation operator, the insertion mutation alone, relative and boundary crossover, the test factory's insert / graceful delete / change-call / change-type / field / value / call mutations, chop, unused-variable removal, forward-dependency removal, clone - over 4 test cases built by the real TestFactory for a generated cluster, maximum length 12; all clauses checked on every live test case after every operation. This part found that the insertion mutation could overshoot the maximum length (fixed 88da910).",
    'C07': ' Bounded addition: the same four goal-graph checks on 1806 generated functions (every chain of <= 3 nested if / if-else / while True / while / for / try-except around 7 innermost bodies; quick: depth <= 2 and a seeded sample of depth 3).',
    'C08': ' The AST line ranges enter _in_cover as ghost fields (first line, last line, list of definitions; scope_line_range and nodes_of_class are assumed to return them) and refutations are replayed on real ast nodes built from the counter-model. Bounded addition: a module of one-line definitions (also as last statement of their scope) with every scope as only_cover / no_cover entry. Third bounded module: try/except/else/finally (also inside a loop) with a marker on every single line.',
    'C19': ' Bounded addition: the real TestSuiteWriter.write (with and without AssertionMinimization and UnusedStatementsTestCaseVisitor) on every ordered selection of <= 2 (thorough 3) of 6 test cases, among them test cases whose statements coincide once unused bindings are stripped but whose assertions differ; the written file is parsed and every attached assertion must follow its statement in some exported function. The attached assertions are recorded after assertion minimization and before the unused-statement post-processing; one template has unused literal statements that carry oracles about other objects.',
    'C20': ' Bounded addition: the recorded assertion must describe the value as observed - after in-place changes of every container reachable from the observed object, the rendered assertion is evaluated against a deep copy taken before the observation.',
    'C21': " Proved in addition: RemoteAssertionVerificationObserver.after_statement_execution records, at the statement's position, every assertion whose evaluation fails or raises (for all statements and any number of assertions; rendering, compile and exec enter as assumed contracts over an uninterpreted verdict function of source text and namespace; the trace is a defaultdict), never forgets what was recorded before, and raises only the tracer's abort signal; AssertionVerificationTrace.was_violated and merge against the set-theoretic definition. Bounded additions for the first clause and the glue: the observer on every verdict vector of <= 4 (5) assertions, __remove_non_holding_assertions on two statements with every failed/error index set, __minimize_assertions / __remove_non_relevant_assertions on 400 (1500) random traces (kept assertions kill what the full set killed), and real AssertionGenerator / MutationAnalysisAssertionGenerator runs on a module with per-call state followed by an independent re-execution of the kept assertions.",
    'C22': ' The blocks include an asserted value three dependency levels below its first input, and six directed suites with that chain next to code that makes its coverage redundant are always part of the sample. Two more blocks: an object asserted only through an attribute path (box_0.v) and an unbound call on it that carries an oracle; eleven directed suites are always part of the sample. This found (and c4709c0 repaired) that such statements were minimized away.',
    'C25': ' Second part: on a bare TypeSystem, 48 (240) seeded orders of five add_subclass_edge updates and enable_numeric_tower with all six lru-cached queries asked on all pairs after every update and compared with the answers after emptying every lru cache.',
    'C26': ' Second part (shared with C25): query/update histories on a bare TypeSystem (edges in every order, one edge that only shortens an existing path, the numeric tower); every cached answer of is_subclass, is_subtype, is_maybe_subtype, subtype_distance, get_subclasses, get_superclasses is compared with the answer after emptying every lru cache.',
    'C27': ' Also proved: a method is registered as under test only if get_class_that_defined_method (assumed, an uninterpreted defining-class function) returns exactly the analysed class (__is_method_defined_in_class). The bounded subject module contains a subclass of an equally named class of another module, and a method counts as defined where its code lives. A second bounded subject is a package that imports from its own submodule (only what the package module defines may be under test).',
    'C28': ' Also bounded: MutationController.mutant_count before and after (capped, reordered) enumerations through create_mutants equals the size of the full enumeration, and the enumeration yields min(cap, total) mutants.',
    'C29': ' Also proved: _is_isolated returns True exactly when the normalised path or one of its ancestors (os.path.dirname applied n times, an uninterpreted function with its defining equations and the fixed-point consequence as hypotheses) is in the created set; termination of the walk is not proved. The sandbox also holds pre-existing siblings whose names merely start like paths the operations create (newdir.bak, new.txt.orig, newdirx/keep.txt), with four operations writing to them.',
    'C30': ' Second part: six test cases that change process-wide state and then never return (abandoned by the executor after 0.3 s), each followed by two probes; same state comparison and order-independence check.',
    'C32': " 'Within the bound plus grace' is decided by the time-outs execute() passes to Thread.join (all finite, sum <= 2 x bound); the wall clock counts only relative to a reference wait of the same shape taken at the same moment (three attempts), so a loaded machine does not alarm.",
}
for _k, _v in ROUND3.items():
    CLAIMS[_k]["text"] += _v
ROUND4 = {
    'C23': " Parsing a rendering back may return None only where ast.literal_eval of the rendering does not itself yield the value (e.g. float('inf') inside a list); set() for the empty set must parse back.",
    'C12': " The native world's deterministic fitness function takes the values 0.0, 1e-12, 5e-324, 0.5 and 2.0, so that 'covered' (exactly 0.0) and 'close to 0' differ in replays.",
    'C06': " Third part: every code object of the standard library's top-level modules (quick: 48 sampled files; thorough: all, ~8000 code objects) against the same oracles (single entry/exit, reachability, post-dominator CDG, root dependence).",
    'C08': " Markers are also placed in the wide-spaced spellings the patterns allow.",
    'C19': " The export check also runs the forward and backward statement minimizers (constant coverage function) before the export, including a five-statement chain whose last statement carries the oracle.",
    'C21': " Bounded addition: 40000 (300000) seeded kill maps with 2-6 assertions over 8 mutants against the contract of _select_minimal_assertions (for changes that take the function out of the verifier's subset).",
    'C22': " The restore branch of _minimize is exercised with a combined visitor that removes one more statement in place after its real run: the returned suite must have the original coverage.",
    'C27': " Ignore lists: none, one function, a proper prefix of function names, two functions, names of other modules (thorough: six random ones); an ignored function must not be under test, nothing else may be dropped.",
    'C01': " The first part also runs with no coverage metric at all (dynamic seeding only), and the vectors include a str subclass whose __len__ prints.",
    'C25': " The type universe includes the tuple of unknown size, 3-tuples and tuple[Any].",
    'C26': " The subject module has generators and parameters for 2-tuples that agree in one position only, 3-tuples and the plain tuple.",
    'C28': " Every higher-order mutant is compared with a pristine parse while it is applied in place (differences only at or below its mutated nodes); an exception raised by the enumeration itself is reported with the state of the original tree.",
    'C30': " One test case closes descriptor 0; descriptors 0-2 are compared by (device, inode), not only by openness.",
    'C32': " Also: two non-terminating test cases in a row (the first sleeping in slices of 0.52-0.95 s so that its abandoned thread wakes up during the second); both must be reported as time-outs with empty results.",
    'C03': " The covered verdicts are read twice: from the zero distances of the trace and through every BranchGoal of the real BranchGoalPool (is_covered); both must equal the interpreter's outcomes. The vectors include floats closer than one machine epsilon and denormals.",
    'C29': " The operation list of the bounded part includes compound operations (directory + file + rename of a scratch file onto its final name; nested makedirs; several temporaries renamed in turn), so that recorded paths have disappeared again before the isolation exits, and os.open with O_TRUNC / O_CREAT / O_APPEND under every access mode.",
}
for _k, _v in ROUND4.items():
    CLAIMS[_k]["text"] += _v
