#!/bin/bash
# usage: tools/regress_seeds.sh [seed dirs...]   -- applies every kept seed to a scratch worktree of /repo HEAD and runs the property's
# check against it (no test suite); prints one line per seed: CAUGHT (exit 1) / MISSED (exit 0) / UNDECIDED (2) / ERROR.
cd "$(dirname "$0")/.."
SEEDS=${@:-$(ls -d seeded/*/)}
one() {
  d=$1; id=$(basename $d); p=${id%-*}
  WT=$(mktemp -d /tmp/rs-XXXX); rmdir $WT
  git -C /repo worktree add -q --detach $WT HEAD || { echo "$id ERROR worktree"; return; }
  if ! git -C $WT apply $PWD/$d/patch.diff 2>/dev/null; then echo "$id PATCH-DOES-NOT-APPLY"; git -C /repo worktree remove --force $WT; return; fi
  out=$(PYVC_OUT=$WT/.pyvc_out PYVC_REPO=$WT PYTHONPATH=$WT/src timeout 1500 .venv/bin/python -m pyvc.runner $p 2>&1 | grep -E "^$p:" | tail -1)
  case "$out" in *exit=1*) v=CAUGHT;; *exit=0*) v=MISSED;; *exit=2*) v=UNDECIDED;; *) v=ERROR;; esac
  echo "$id $v $out"
  git -C /repo worktree remove --force $WT
}
export -f one
printf '%s\n' $SEEDS | xargs -P ${PAR:-4} -I{} bash -c 'one {}'
