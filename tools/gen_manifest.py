#!/usr/bin/env python3
"""Regenerates /verif/MANIFEST.json from the table below (kept valid against the schema)."""
import json
import os
import sys

ROOT = os.path.dirname(os.path.dirname(os.path.abspath(__file__)))
sys.path.insert(0, ROOT)
from tools.claims import CLAIMS, NOT_APPLICABLE  # noqa: E402

base = json.load(open("/root/.vp/BASELINE.json"))
props = [json.loads(l) for l in open(os.path.join(ROOT, "properties.jsonl"))]
ids = [p["id"] for p in props]

checks = []
for pid in ids:
    if pid not in CLAIMS:
        continue
    c = CLAIMS[pid]
    checks.append({
        "property_id": pid,
        "quick_cmd": f"./check {pid} --tier quick",
        "thorough_cmd": f"./check {pid} --tier thorough",
        "evidence_file": f"evidence/{pid}.json",
        "replay_cmd_template": f"./check {pid} --replay {{path}}",
        "engine": "pyvc",
        "level_claimed": {"category": c.get("category", "proof"), "text": c["text"], "design_ref": c.get("ref", f"DESIGN.md section 2 {pid}")},
        "level_note": c["note"],
        "technique": c.get("technique", "contract-based deductive verification: VCs generated from the real Python AST against "
                                         "sidecar contracts, discharged by z3 (cvc5 for unknowns)"),
    })
na = []
for pid in ids:
    if pid in CLAIMS:
        continue
    na.append({"property_id": pid, "reason": NOT_APPLICABLE.get(pid, "contracts planned in DESIGN.md but machinery not built yet")})

m = {
    "version": 1,
    "setup_cmd": "./setup.sh",
    "hooks": {"guard": "SE2P_PYNGUIN_VERIF",
              "enable": "none needed: contracts are sidecar files under /verif/contracts; the machinery requires no edit of /repo",
              "baseline_off_cmd": base["cmd"], "source_commits": [], "add_only": True},
    "engines": [{"name": "pyvc", "path": "pyvc/", "serves_properties": sorted(CLAIMS),
                 "kind_free_text": "verification-condition generator over the real Python AST of /repo (re-read on every run) "
                                   "with sidecar contracts; obligations discharged by z3 (cvc5 takes unknowns); refutations "
                                   "replayed natively on the real function"}],
    "checks": checks,
    "not_applicable": na,
    "notes": "exit codes of ./check: 0 held, 1 violation, 2 undecided (never a violation), 3 checker error; see DESIGN.md 1.6",
}
json.dump(m, open(os.path.join(ROOT, "MANIFEST.json"), "w"), indent=1)
try:
    import jsonschema
    jsonschema.validate(m, json.load(open("/root/.vp/MANIFEST.schema.json")))
    print("MANIFEST.json valid;", len(checks), "checks,", len(na), "not applicable")
except ImportError:
    print("written (jsonschema not available for validation)")
