#!/bin/bash
# runs the pinned baseline test command on /repo and compares with BASELINE.json's stable_pass list
cd /repo && /venv/bin/python -m pytest -ra -q -p no:cacheprovider --timeout=900 --continue-on-collection-errors --junitxml=/tmp/baseline_run.xml > /tmp/baseline_run.log 2>&1
/venv/bin/python - <<'PY'
import json, xml.etree.ElementTree as ET
sp=set(json.load(open('/root/.vp/BASELINE.json'))['stable_pass'])
passed=set()
for tc in ET.parse('/tmp/baseline_run.xml').iter('testcase'):
    if not any(c.tag in('failure','error','skipped') for c in tc):
        passed.add(f"{tc.get('classname')}::{tc.get('name')}")
print("BASELINE stable_pass:", len(sp), "passed now:", len(passed), "missing:", len(sp-passed), sorted(sp-passed)[:5])
PY
tail -1 /tmp/baseline_run.log
