#!/usr/bin/env python3
"""tools/seed_prep.py <Cxx> [tag] [extra text]: create a scratch worktree /tmp/wt_<Cxx><tag> of /repo HEAD and print the prompt for a
seeding sub-agent (only the property text goes in; nothing from /verif)."""
import json, os, subprocess, sys
pid = sys.argv[1]
tag = sys.argv[2] if len(sys.argv) > 2 else ""
extra = sys.argv[3] if len(sys.argv) > 3 else ""
here = os.path.dirname(os.path.abspath(__file__))
prop = next(json.loads(l) for l in open(os.path.join(here, "..", "properties.jsonl")) if json.loads(l)["id"] == pid)
wt, out = f"/tmp/wt_{pid}{tag}", f"/tmp/seed/{pid}{tag}"
os.makedirs(out, exist_ok=True)
if not os.path.isdir(wt):
    subprocess.run(["git", "-C", "/repo", "worktree", "add", "-q", "--detach", wt, "HEAD"], check=True)
anch = "; ".join(f"{m['name']} ({m['where']})" for m in prop["anchors"].get("mechanism", []))
txt = open(os.path.join(here, "seed_prompt.txt")).read().format(
    WT=wt, OUT=out, PID=pid, TITLE=prop["title"], STATEMENT=prop["statement"], QUANT=prop["quantifier"]["text"],
    ANCHORS=anch + " | files: " + ", ".join(prop["anchors"].get("files", [])), EXTRA=("\n" + extra + "\n") if extra else "")
print(txt)
