#!/bin/bash
# runs every check registered in MANIFEST.json (quick tier) and prints one summary line each
cd "$(dirname "$0")/.."
IDS=${@:-$(.venv/bin/python -c "import json;print(' '.join(c['property_id'] for c in json.load(open('MANIFEST.json'))['checks']))")}
for p in $IDS; do ( ./check $p > /tmp/runall_$p.log 2>&1; echo "$p exit=$? $(tail -1 /tmp/runall_$p.log)" ) & done; wait
