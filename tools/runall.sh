#!/bin/bash
# runs every check registered in MANIFEST.json (quick tier), at most $PAR (default 5) at a time, and prints one summary line each
cd "$(dirname "$0")/.."
IDS=${@:-$(.venv/bin/python -c "import json;print(' '.join(c['property_id'] for c in json.load(open('MANIFEST.json'))['checks']))")}
printf '%s\n' $IDS | xargs -P ${PAR:-5} -I{} sh -c './check {} > /tmp/runall_{}.log 2>&1; echo "{} exit=$? $(tail -1 /tmp/runall_{}.log)"'
