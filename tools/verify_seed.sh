#!/bin/bash
# usage: tools/verify_seed.sh <seeddir> <Cxx> [more Cxx...]  -- confirms a seeded change in a scratch worktree and runs the checks
# against it.  Writes <seeddir>/verify.log.  The worktree is removed afterwards.
SD=$1; shift
PIDS="$@"
WT=$(mktemp -d /tmp/vs-XXXX); rmdir $WT
LOG=$SD/verify.log
{
git -C /repo worktree add -q --detach $WT HEAD || exit 9
echo "== demo on clean tree"; (cd $WT && PYTHONPATH=$WT/src timeout 600 /venv/bin/python $SD/demo.py >/tmp/vs_demo_clean.$$ 2>&1; echo "exit=$?"; tail -3 /tmp/vs_demo_clean.$$)
echo "== apply patch"; if ! git -C $WT apply $SD/patch.diff; then echo "PATCH DOES NOT APPLY to /repo HEAD"; git -C /repo worktree remove --force $WT; exit 8; fi; git -C $WT diff --stat
echo "== demo on patched tree"; (cd $WT && PYTHONPATH=$WT/src timeout 600 /venv/bin/python $SD/demo.py >/tmp/vs_demo_p.$$ 2>&1; echo "exit=$?"; tail -3 /tmp/vs_demo_p.$$)
echo "== test suite on patched tree"
(cd $WT && PYTHONPATH=$WT/src timeout 1500 /venv/bin/python -m pytest -q -p no:cacheprovider --timeout=900 --continue-on-collection-errors --junitxml=/tmp/vs_junit.$$.xml >/tmp/vs_pytest.$$ 2>&1; tail -1 /tmp/vs_pytest.$$)
/venv/bin/python - <<PY
import json, xml.etree.ElementTree as ET
sp=set(json.load(open('/root/.vp/BASELINE.json'))['stable_pass'])
passed=set()
for tc in ET.parse('/tmp/vs_junit.$$.xml').iter('testcase'):
    if not any(c.tag in('failure','error','skipped') for c in tc):
        passed.add(f"{tc.get('classname')}::{tc.get('name')}")
print("baseline stable_pass missing on patched tree:", len(sp-passed), sorted(sp-passed)[:5])
PY
for P in $PIDS; do
  echo "== ./check $P against patched tree"
  (cd /verif && PYVC_OUT=$WT/.pyvc_out PYVC_REPO=$WT PYTHONPATH=$WT/src timeout 1200 .venv/bin/python -m pyvc.runner $P 2>&1 | grep -E "VIOLATION|UNDECIDED|CHECKER|KNOWN|^$P:" | cut -c1-300)
done
git -C /repo worktree remove --force $WT
rm -f /tmp/vs_*.$$ /tmp/vs_junit.$$.xml
} > $LOG 2>&1
echo done >> $LOG
