#!/usr/bin/env python3
"""tools/keep_seed.py <Cxx> [n]: copy a confirmed seeded change from /tmp/seed/<Cxx> into /verif/seeded/<Cxx>-<n>/."""
import json, os, re, shutil, sys
p = sys.argv[1]; n = sys.argv[2] if len(sys.argv) > 2 else "1"
src, dst = os.environ.get("SEED_SRC", f"/tmp/seed/{p}"), f"/verif/seeded/{p}-{n}"
os.makedirs(dst, exist_ok=True)
for f in ("patch.diff", "demo.py"):
    shutil.copy(f"{src}/{f}", f"{dst}/{f}")
m = json.load(open(f"{src}/meta.json"))
log = open(f"{src}/verify.log").read()
m2 = {"property": p, "summary": m.get("summary"), "needs_to_manifest": m.get("needs_to_manifest"),
      "confirmed_by_me": {
          "clean_tree_demo_exit": re.findall(r"== demo on clean tree\nexit=(\d+)", log),
          "patched_tree_demo_exit": re.findall(r"== demo on patched tree\nexit=(\d+)", log),
          "test_suite_on_patched_tree": re.findall(r"(\d+ failed, \d+ passed.*)", log),
          "baseline_stable_pass_missing": re.findall(r"baseline stable_pass missing on patched tree: (\d+)", log),
          "ran": "tools/verify_seed.sh in a scratch worktree of /repo HEAD (removed afterwards)"},
      "check_result": [l for l in log.splitlines() if l.startswith(("VIOLATION", "UNDECIDED", "CHECKER", p + ":"))]}
json.dump(m2, open(f"{dst}/meta.json", "w"), indent=1)
print(p, m2["confirmed_by_me"]["clean_tree_demo_exit"], m2["confirmed_by_me"]["patched_tree_demo_exit"],
      m2["confirmed_by_me"]["baseline_stable_pass_missing"], m2["check_result"][-1:])
