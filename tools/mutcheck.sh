#!/bin/bash
# usage: tools/mutcheck.sh <Cxx> <file relative to src/> <sed-expression>   (scratch copy of /repo/src; removed afterwards)
set -e
PID=$1; FILE=$2; SED=$3
S=$(mktemp -d /tmp/pyvc-scratch-XXXX)
trap 'rm -rf "$S"' EXIT
mkdir -p $S/src && rsync -a --exclude __pycache__ /repo/src/ $S/src/
sed -i -E "$SED" $S/src/$FILE
if diff -q /repo/src/$FILE $S/src/$FILE >/dev/null; then echo "MUTATION DID NOT APPLY"; exit 9; fi
diff /repo/src/$FILE $S/src/$FILE | head -6
cd /verif
set +e
PYVC_OUT=$S/.pyvc_out PYVC_REPO=$S PYTHONPATH=$S/src .venv/bin/python -m pyvc.runner $PID 2>&1 | grep -E "VIOLATION|UNDECIDED|CHECKER|^$PID:" | cut -c1-260
exit 0
