#!/bin/bash
# Builds /verif/.venv: python 3.12 (the interpreter of /venv) + z3-solver + cvc5 from the offline
# wheelhouse, with a .pth that makes /venv's site-packages (pynguin's dependencies) and /repo/src importable.
set -e
cd "$(dirname "$0")"
if [ -x .venv/bin/python ] && .venv/bin/python -c "import z3, cvc5, pynguin" 2>/dev/null; then
  exit 0
fi
rm -rf .venv
/venv/bin/python -m venv .venv
PIP_NO_INDEX=1 .venv/bin/pip install -q --no-index --find-links /opt/veriftools/wheels z3-solver cvc5 jsonschema >/dev/null
SP=$(.venv/bin/python -c "import sysconfig; print(sysconfig.get_paths()['purelib'])")
echo "import site; site.addsitedir('/venv/lib/python3.12/site-packages')" > "$SP/zz_repo_deps.pth"
.venv/bin/python -c "import z3, cvc5, pynguin; print('pyvc venv ok', z3.get_version_string())"
